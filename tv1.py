#!/usr/bin/env python3
"""Translator validation 1 (DESIGN.md 2.7-1): the repository's test-suite must give the same per-test outcome on the
lifted package (identity helpers) as on the plain package.  Exit 0 iff the outcome maps are identical."""
import os
import subprocess
import sys
import tempfile
import xml.etree.ElementTree as ET

VERIF = os.path.dirname(os.path.abspath(__file__))


def run(lifted, out):
    env = dict(os.environ, PYTHONPATH=VERIF)
    cmd = ['/venv/bin/python', '-m', 'pytest', '-q', '-p', 'no:cacheprovider', '--timeout=900',
           '--continue-on-collection-errors', '--junitxml=' + out]
    if lifted:
        cmd[4:4] = ['-p', 'symx.tv1plugin']
    subprocess.run(cmd, cwd='/repo', env=env, stdout=subprocess.DEVNULL, stderr=subprocess.DEVNULL)
    res = {}
    for tc in ET.parse(out).getroot().iter('testcase'):
        name = '%s::%s' % (tc.get('classname'), tc.get('name'))
        st = 'pass'
        for ch in tc:
            if ch.tag in ('failure', 'error', 'skipped'):
                st = ch.tag
        res[name] = st
    return res


def main():
    os.makedirs(os.path.join(VERIF, '.tmp'), exist_ok=True)
    with tempfile.TemporaryDirectory(dir=os.path.join(VERIF, '.tmp')) as d:
        a = run(False, os.path.join(d, 'plain.xml'))
        b = run(True, os.path.join(d, 'lifted.xml'))
    diff = {k: (a.get(k), b.get(k)) for k in set(a) | set(b) if a.get(k) != b.get(k)}
    npass = sum(1 for v in b.values() if v == 'pass')
    print('tv1: plain %d tests, lifted %d tests, lifted passes %d, differing outcomes %d' % (len(a), len(b), npass, len(diff)))
    for k, v in list(diff.items())[:20]:
        print('  DIFF', k, v)
    return 0 if not diff and npass > 0 else 1


if __name__ == '__main__':
    sys.exit(main())
