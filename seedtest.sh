#!/bin/bash
# usage: seedtest.sh <PROP> <worktree> <letter> [tier] [stored-letter]
# Confirms a seeded change in the scratch worktree (tests unchanged, demo fails with / passes without), then runs the
# property's check against the worktree (PRYSM_REPO) with the change applied.  Results go to /verif/seeded/<PROP>-<letter>/.
PROP=$1; WT=$2; L=$3; TIER=${4:-quick}; STORE=${5:-$L}
OUT=/verif/seeded/$PROP-$STORE
mkdir -p $OUT
cp $WT/_seed/mutant$L.diff $OUT/patch.diff
cp $WT/_seed/demo_$L.py $OUT/demo.py
cd $WT && git checkout -q -- . && git apply --check $OUT/patch.diff || { echo "patch does not apply"; exit 2; }
cp $OUT/demo.py $WT/_demo_run.py
PYTHONPATH=$WT /venv/bin/python _demo_run.py > $OUT/demo_clean.log 2>&1; CLEAN=$?
git apply $OUT/patch.diff
PYTHONPATH=$WT /venv/bin/python _demo_run.py > $OUT/demo_mutant.log 2>&1; MUT=$?
TESTS=$(PYTHONPATH=$WT /venv/bin/python -m pytest -q -p no:cacheprovider --continue-on-collection-errors 2>&1 | tail -1)
rm -f _demo_run.py
echo "demo clean exit=$CLEAN mutant exit=$MUT tests: $TESTS"
cd /verif
# the check runs against the scratch worktree with the change applied (PRYSM_REPO); /repo itself is never touched
PRYSM_REPO=$WT timeout 3000 ./check $PROP --tier $TIER > $OUT/check.log 2>&1; RC=$?
git -C $WT checkout -q -- .
NV=$(grep -c "^VIOLATION" $OUT/check.log)
echo "check exit=$RC violations=$NV :: $(tail -1 $OUT/check.log)"
python3 - <<PY
import json
json.dump({"property":"$PROP","mutant":"$STORE","demo_exit_clean":$CLEAN,"demo_exit_mutant":$MUT,"tests_with_mutant":"""$TESTS""".strip(),
"check_cmd":"./check $PROP --tier $TIER","check_exit":$RC,"violation_lines":$NV,"detected":bool($RC==1 and $NV>0)}, open("$OUT/meta.json","w"), indent=1)
PY
find /verif/evidence/replays -name "$PROP-*.json" -delete
