"""symx.symspecial -- scipy.special-shaped namespace: exact integer factorials; everything else is the real scipy on
concrete numbers (and NotEncodable on symbolic ones)."""
import math

import numpy as _np
import scipy.special as _sp

from .core import Sx, NotEncodable


def _exact_int(n):
    if isinstance(n, Sx):
        f = n.as_fraction()
        if f is None or f.denominator != 1:
            raise NotEncodable('factorial of a symbolic value')
        return int(f)
    if isinstance(n, (int, _np.integer)):
        return int(n)
    f = float(n)
    if f != int(f):
        raise NotEncodable('factorial of a non-integer')
    return int(f)


def factorial(n, exact=False, **k):
    if isinstance(n, (_np.ndarray, list, tuple)):
        from . import symnp
        return symnp._map1(lambda v: factorial(v), symnp.asarray(n))
    n = _exact_int(n)
    return math.factorial(n) if n >= 0 else 0


def factorial2(n, exact=False, **k):
    if isinstance(n, (_np.ndarray, list, tuple)):
        from . import symnp
        return symnp._map1(lambda v: factorial2(v), symnp.asarray(n))
    n = _exact_int(n)
    if n < -1:
        return 0
    r = 1
    while n > 1:
        r *= n
        n -= 2
    return r


def __getattr__(name):
    real = getattr(_sp, name)
    if not callable(real):
        return real

    def wrapper(*a, **k):
        for v in a:
            if isinstance(v, Sx) or (isinstance(v, _np.ndarray) and v.dtype == object):
                raise NotEncodable('scipy.special.%s on symbolic input' % name)
        return real(*a, **k)
    return wrapper
