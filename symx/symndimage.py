"""symx.symndimage -- scipy.ndimage-shaped namespace with definition-level stubs."""
from fractions import Fraction

import numpy as _np

from . import symnp, core
from .core import Sx, NotEncodable


def center_of_mass(a):
    a = _np.asarray(symnp.asarray(a), dtype=object)
    tot = a.sum()
    out = []
    for ax in range(a.ndim):
        idx = _np.arange(a.shape[ax]).astype(object)
        shp = [1] * a.ndim
        shp[ax] = -1
        s = (a * idx.reshape(shp)).sum()
        out.append(Sx.const(s) / Sx.const(tot))
    return tuple(out)


def convolve(inp, weights, output=None, mode='reflect', cval=0.0, origin=0):
    """scipy.ndimage.convolve by definition (2-D, odd/even kernels, modes reflect/constant/wrap/nearest/mirror)."""
    a = _np.asarray(symnp.asarray(inp), dtype=object)
    w = _np.asarray(symnp.asarray(weights), dtype=object)
    if a.ndim != w.ndim:
        raise NotEncodable('convolve rank mismatch')
    if origin != 0:
        raise NotEncodable('convolve origin')
    out = _np.empty(a.shape, dtype=object)
    # correlate with flipped kernel; scipy centre = shape//2, and for convolve of even-sized kernels origin shifts by -1
    wf = w[tuple(slice(None, None, -1) for _ in range(w.ndim))]
    cen = [s // 2 for s in w.shape]
    cen = [c - (1 if s % 2 == 0 else 0) for c, s in zip(cen, w.shape)]

    def fetch(idx):
        real = []
        for i, n in zip(idx, a.shape):
            if 0 <= i < n:
                real.append(i)
                continue
            if mode == 'constant':
                return symnp._ex(cval)
            if mode == 'wrap':
                real.append(i % n)
            elif mode == 'nearest':
                real.append(min(max(i, 0), n - 1))
            elif mode == 'reflect':
                p = 2 * n
                j = i % p
                real.append(j if j < n else p - 1 - j)
            elif mode == 'mirror':
                if n == 1:
                    real.append(0)
                else:
                    p = 2 * n - 2
                    j = i % p
                    real.append(j if j < n else p - j)
            else:
                raise NotEncodable('convolve mode %r' % mode)
        return a[tuple(real)]

    for pos in _np.ndindex(a.shape):
        acc = 0
        for k in _np.ndindex(wf.shape):
            wv = wf[k]
            if isinstance(wv, int) and wv == 0:
                continue
            src = tuple(p + kk - c for p, kk, c in zip(pos, k, cen))
            acc = acc + wv * fetch(src)
        out[pos] = acc
    return out.view(symnp.SymArray)


def fourier_shift(inp, shift, n=-1, axis=-1, output=None):
    a = _np.asarray(symnp.asarray(inp), dtype=object)
    if not isinstance(shift, (list, tuple, _np.ndarray)):
        shift = [shift] * a.ndim
    out = a.copy()
    ctx = core.cur()
    for ax, (s, N) in enumerate(zip(shift, a.shape)):
        s = symnp._sx(s)
        ks = s.as_k()
        if ks is None:
            raise NotEncodable('fourier_shift by content-dependent shift')
        ph = _np.empty(N, dtype=object)
        for i in range(N):
            f = i if i < (N + 1) // 2 else i - N
            ph[i] = Sx.phasor(ks * ctx.k(Fraction(-2 * f, N)), ctx)
        shp = [1] * a.ndim
        shp[ax] = N
        out = out * ph.reshape(shp)
    return out.view(symnp.SymArray)


def map_coordinates(*a, **k):
    raise NotEncodable('ndimage.map_coordinates is not modelled')
