"""symx.runner -- orchestrates a property check: configs -> paths -> obligations -> solver -> replay -> evidence."""
import os
import sys
import json
import time
import math
import random
import hashlib
import re
import subprocess
import traceback
import importlib
import multiprocessing as mp
from fractions import Fraction

VERIF = os.path.dirname(os.path.dirname(os.path.abspath(__file__)))
REPO = os.environ.get('PRYSM_REPO', '/repo')
VENV_PY = os.environ.get('PRYSM_VENV_PY', '/venv/bin/python')
TV2_RTOL = 1e-7


# ---------------------------------------------------------------------------------------------
# worker side (python3-vt, symbolic)
# ---------------------------------------------------------------------------------------------

def _rand_env(ctx, rng, base=None):
    env = dict(base or {})
    for n in ctx.param_names:
        if n in env:
            continue
        info = ctx.info.get(n, {})
        env[n] = _rand_value(info, rng)
    for n, info in zip(ctx.content_names, ctx.content_info):
        if n in env:
            continue
        env[n] = _rand_value(info, rng)
    return env


def _rand_value(info, rng):
    if 'value' in info:
        return info['value']
    lo, hi = info.get('lo'), info.get('hi')
    if info.get('gt') is not None:
        lo = info['gt'] + 0.05
    if info.get('lt') is not None:
        hi = info['lt'] - 0.05
    if info.get('integer'):
        lo = int(lo if lo is not None else -3)
        hi = int(hi if hi is not None else 3)
        return float(rng.randint(lo, hi))
    if lo is not None and hi is not None:
        return rng.uniform(float(lo), float(hi))
    if lo is not None:
        return float(lo) + rng.uniform(0.05, 2.0)
    if hi is not None:
        return float(hi) - rng.uniform(0.05, 2.0)
    if info.get('pos'):
        return rng.uniform(0.3, 2.5)
    if info.get('nonneg'):
        return rng.uniform(0.0, 2.0)
    return rng.uniform(-1.5, 1.5)


def _env_satisfies(ctx, env, pathcond):
    try:
        full = ctx.full_env(env)
        for b in ctx.pre:
            if not core_beval(b, full):
                return False
        for sb, val in pathcond:
            if core_beval(sb, full) != val:
                return False
        return True
    except Exception:   # noqa
        return False


def core_beval(b, env):
    from .core import SymBool
    if isinstance(b, SymBool):
        return b.eval(env)
    return bool(b)


def _sample_env(ctx, pathcond, rng, tries=200):
    from . import core
    try:
        subs = core.equalities_to_substitutions(ctx, pathcond)
    except Exception:   # noqa
        subs = []
    for _ in range(tries):
        env = _rand_env(ctx, rng)
        if subs:
            # parameters pinned by path-condition equalities take the value the equality dictates
            try:
                e2 = dict(env)
                e2['pi'] = math.pi
                for gname, vp in subs:
                    e2[gname] = core._eval_poly(vp, ctx, e2)
                    env[gname] = e2[gname]
            except KeyError:
                pass
        if _env_satisfies(ctx, env, pathcond):
            return env
    # fall back to a solver model of pre & path
    from . import smt
    import z3
    zenv = smt.Z3Env(ctx)
    s = z3.Solver()
    s.set('timeout', 20000)
    for b in ctx.pre:
        s.add(zenv.boolean(b))
    for sb, val in pathcond:
        zb = zenv.boolean(sb)
        s.add(zb if val else z3.Not(zb))
    for n in ctx.param_names:
        zenv.var(n)
    s.add(*zenv.all_side())
    res = str(s.check())
    if res == 'sat':
        # a solver model of preconditions + path: accepted as the witness even when re-evaluation in floats sits on a boundary
        env = smt.model_env(ctx, zenv, s.model())
        env = _rand_env(ctx, rng, env)
        return env
    if res == 'unsat':
        return 'infeasible'
    return None


class _BudgetExceeded(BaseException):
    pass


class _time_budget:
    """Interrupt pure-python work in this (worker) process after `seconds` (None: no limit)."""

    def __init__(self, seconds):
        self.seconds = seconds

    def __enter__(self):
        if self.seconds:
            import signal

            def handler(signum, frame):
                raise _BudgetExceeded()
            self.old = signal.signal(signal.SIGALRM, handler)
            signal.setitimer(signal.ITIMER_REAL, self.seconds)
        return self

    def __exit__(self, *a):
        if self.seconds:
            import signal
            signal.setitimer(signal.ITIMER_REAL, 0)
            signal.signal(signal.SIGALRM, self.old)
        return False


def _generic_witness(ctx, ob, pathcond, rng, tries=12, thresh=1e-5, need=1):
    import numpy as np
    try:
        la = np.asarray(ob.lhs, dtype=object).reshape(-1)
        ra = np.asarray(ob.rhs, dtype=object).reshape(-1)
        if la.size != ra.size:
            la, ra = (np.broadcast_arrays(np.asarray(ob.lhs, dtype=object), np.asarray(ob.rhs, dtype=object)))
            la, ra = la.reshape(-1), ra.reshape(-1)
    except Exception:   # noqa
        return None
    found = None
    for _ in range(tries):
        env = _sample_env(ctx, pathcond, rng, tries=50)
        if env is None or env == 'infeasible':
            return None
        try:
            full = ctx.full_env(env)
            worst, ref = 0.0, 1e-9
            for a, b in zip(la, ra):
                va, vb = _num(a, full), _num(b, full)
                if va is None or vb is None or isinstance(va, str) or isinstance(vb, str):
                    continue
                worst = max(worst, abs(va - vb))
                ref = max(ref, abs(va), abs(vb))
            if worst > thresh * ref:
                need -= 1
                found = env
                if need <= 0:
                    return env
            elif found is not None:
                return None      # differs at one point but not at another: not a generic difference
        except Exception:   # noqa
            continue
    return None


def _num(v, full):
    """numeric value (complex or None for NaN) of an exact element at env."""
    from .core import Sx
    from .symnp import _NaN, _Uninit
    if isinstance(v, _Uninit):
        return 'uninit'
    if isinstance(v, _NaN):
        return None
    if isinstance(v, Sx):
        return v.eval(full)
    from .core import Qx
    if isinstance(v, Qx):
        return v.eval(full)
    if isinstance(v, (bool,)):
        return complex(int(v))
    return complex(v)


def _num_array(a, full):
    import numpy as np
    arr = np.asarray(a, dtype=object)
    return {'shape': list(arr.shape), 'vals': [_num(v, full) for v in arr.reshape(-1)]}


def _flatten_pairs(lhs, rhs):
    import numpy as np
    la = np.asarray(lhs, dtype=object).reshape(-1)
    ra = np.asarray(rhs, dtype=object).reshape(-1)
    return list(zip(la, ra))


def process_config(job):
    """Runs in a worker process.  job = dict(prop, cfg, tier, seed, qtimeout, max_paths)."""
    t0 = time.time()
    sys.setrecursionlimit(10000)
    from . import core, smt, vhelpers, symh, symnp
    from .core import Ctx, NotEncodable, PathAbort, Sx, SymBool
    prop, cfg = job['prop'], job['cfg']
    mod = importlib.import_module('props.' + prop)
    rng = random.Random((job['seed'] * 1000003) ^ hash(json.dumps(cfg, sort_keys=True)) & 0xffffffff)
    res = {'cfg': cfg, 'paths': 0, 'obligations': [], 'ce': [], 'tv2': [], 'notes': [], 'inconclusive': 0,
           'samples': []}
    smt.STATS.update({'queries': 0, 'solver_time_s': 0.0, 'unsat': 0, 'sat': 0, 'unknown': 0})
    try:
        params = mod.params(cfg)
        ctx = Ctx(params, nderived=getattr(mod, 'NDERIVED', 16))
        holder = {}

        def body():
            ctx.pre = []
            with vhelpers.Session(ctx) as S:
                H = symh.SymH(ctx, S, cfg)
                holder['H'] = H
                mod.run(cfg, H)
                return H

        for pathcond, H, err in core.explore(ctx, body, max_paths=job.get('max_paths', 32)):
            if pathcond == 'budget':
                res['inconclusive'] += 1
                res['notes'].append('path budget exhausted')
                break
            res['paths'] += 1
            H = holder.get('H')
            pre_snapshot = list(ctx.pre)
            if isinstance(err, (PathAbort, NotEncodable)):
                res['inconclusive'] += 1
                res['notes'].append('path %d: %s: %s' % (res['paths'], type(err).__name__, err))
                continue
            obligations = list(H.obligations) if H is not None else []
            if err is not None:
                # an exception of the analysed code on a feasible path: candidate violation, confirmed by replay
                tb = traceback.extract_tb(err.__traceback__)
                where = ''
                for fr in tb:
                    if '/prysm/' in fr.filename:
                        where = '%s:%d' % (os.path.relpath(fr.filename, REPO), fr.lineno)
                if not where:
                    # raised outside the analysed code.  In the harness itself (e.g. a result of unexpected shape): a candidate only if the
                    # real run fails with the same exception type at the same harness line; anywhere else (engine): inconclusive
                    hl = [fr.lineno for fr in tb if '/props/' in fr.filename]
                    last = tb[-1].filename if tb else ''
                    if not hl or '/symx/' in last:
                        res['inconclusive'] += 1
                        res['notes'].append('path %d: HARNESS-ERROR outside prysm: %s: %s' % (res['paths'], type(err).__name__, str(err)[:200]))
                        continue
                    where = 'harness:%d' % hl[-1]
                obligations.append(symh.Obligation('no-exception', 'raises', None, None,
                                                   '%s: %s @%s' % (type(err).__name__, str(err)[:200], where)))
            ctx.pre = pre_snapshot
            # vacuity guard: preconditions + path must be satisfiable
            env0 = _sample_env(ctx, pathcond, rng)
            if env0 == 'infeasible':
                # preconditions added while running (H.assume) contradict earlier decisions: not a path of the property
                res['paths'] -= 1
                res['infeasible_paths'] = res.get('infeasible_paths', 0) + 1
                continue
            if env0 is None:
                res['inconclusive'] += 1
                res['notes'].append('path %d: no witness for preconditions+path (vacuity guard)' % res['paths'])
                continue
            try:
                full0 = ctx.full_env(env0)
            except ZeroDivisionError:
                if os.environ.get('SYMX_DEBUG'):
                    print('DEBUG env0', env0, 'pathcond', pathcond)
                    for nm in ctx.derived_names[:ctx.next_derived]:
                        print('DEBUG derived', nm, ctx.derived_def[nm])
                raise
            tv2_vals = {}
            try:
                path_subs = core.equalities_to_substitutions(ctx, pathcond)
            except NotEncodable:
                path_subs = []
            for ob in obligations:
                rec = {'label': ob.label, 'kind': ob.kind, 'path': res['paths']}
                try:
                    if ob.kind == 'eq':
                        pairs = _flatten_pairs(ob.lhs, ob.rhs)
                        structural = None
                        sym_pairs = []
                        for i, (a, b) in enumerate(pairs):
                            an, bn = isinstance(a, symnp._NaN), isinstance(b, symnp._NaN)
                            if an != bn:
                                structural = i
                                break
                            if an:
                                continue
                            if path_subs and not isinstance(a, core.Qx) and not isinstance(b, core.Qx):
                                a = core.subs_sx(symnp._sx(a), ctx, path_subs)
                                b = core.subs_sx(symnp._sx(b), ctx, path_subs)
                            sym_pairs.append((a, b))
                        if structural is not None:
                            rec.update(status='sat', structural='NaN pattern differs at flat index %d' % structural)
                            cex_env = env0
                        else:
                            # the exact query gets a first budget; if normalising the identity takes longer, a numeric difference at two
                            # generic points of the path is taken as the counterexample candidate (replay decides), otherwise the exact
                            # query is run to the end
                            kw = dict(timeout_s=job['qtimeout'], want_smt2=job.get('want_smt2', False) and (not res['samples'] or res.get('xchecks', 0) < 2))
                            try:
                                with _time_budget(45):
                                    r = smt.check_equal_many(ctx, sym_pairs, pathcond, **kw)
                            except _BudgetExceeded:
                                wit = _generic_witness(ctx, ob, pathcond, rng, tries=2, thresh=1e-3, need=2)
                                if wit is not None:
                                    r = {'status': 'sat', 'env': wit, 'n_components': 0, 'syntactic_mismatch': -1, 'time_s': 45.0, 'atoms': 0}
                                    rec['decided'] = 'numeric witness (exact normalisation of the failing identity exceeded 45 s); confirmed by replay only'
                                else:
                                    r = smt.check_equal_many(ctx, sym_pairs, pathcond, **kw)
                            if r['status'] == 'sat' and 'decided' not in rec:
                                # cyclotomic vs radical representation of the same constants: retry on the algebraic form
                                r2 = smt.check_equal_many(ctx, sym_pairs, pathcond, timeout_s=job['qtimeout'], algebraic_roots=True)
                                if r2['status'] == 'unsat':
                                    r = r2
                            rec.update(status=r['status'], n_components=r['n_components'],
                                       syntactic_mismatch=r['syntactic_mismatch'], time_s=round(r['time_s'], 4),
                                       atoms=r['atoms'])
                            if 'smt2' in r:
                                rec['smt2_head'] = r['smt2'][:1500]
                                if r.get('syntactic_mismatch') and r['status'] in ('sat', 'unsat') and res.get('xchecks', 0) < 2 \
                                        and len(r['smt2']) < 400000:
                                    # second solver on the same SMT-LIB text (a few sampled, non-trivial queries per run)
                                    res['xchecks'] = res.get('xchecks', 0) + 1
                                    rec['cvc5'] = smt.cross_check(r['smt2'], timeout_s=10)
                            cex_env = r.get('env')
                        if ob.note != 'notv2':
                            tv2_vals[ob.label] = _num_array(ob.lhs, full0)
                    elif ob.kind == 'holds':
                        if isinstance(ob.lhs, SymBool):
                            wx = bool(job.get('want_smt2')) and res.get('xchecks', 0) < 2
                            r = smt.check_bool(ctx, ob.lhs, pathcond, timeout_s=job['qtimeout'], want_smt2=wx)
                            rec.update(status=r['status'], time_s=round(r['time_s'], 4), atoms=r['atoms'])
                            if wx and 'smt2' in r and r['status'] in ('sat', 'unsat') and r.get('atoms') and len(r['smt2']) < 400000:
                                res['xchecks'] = res.get('xchecks', 0) + 1
                                rec['cvc5'] = smt.cross_check(r['smt2'], timeout_s=10)
                            cex_env = r.get('env')
                        else:
                            rec.update(status='unsat' if bool(ob.lhs) else 'sat', decided='concretely')
                            cex_env = env0
                    elif ob.kind == 'shape':
                        okk = list(ob.lhs) == list(ob.rhs)
                        rec.update(status='unsat' if okk else 'sat', decided='concretely',
                                   got=ob.lhs, want=ob.rhs)
                        cex_env = env0
                    elif ob.kind == 'raises':
                        rec.update(status='sat', exception=ob.note)
                        cex_env = env0
                    elif ob.kind == 'value':
                        tv2_vals[ob.label] = _num_array(ob.lhs, full0)
                        continue
                    else:
                        raise NotEncodable('obligation kind %r' % ob.kind)
                except NotEncodable as e:
                    rec.update(status='unknown', error='NotEncodable: %s' % e)
                    cex_env = None
                if rec['status'] == 'sat':
                    # complete the counterexample with values for everything the model left open
                    env = None
                    if ob.kind == 'eq' and rec.get('structural') is None:
                        # a failed identity fails at generic points: prefer a random witness (the solver's model tends to
                        # sit on coincidence sets such as Qx == Qy == 1) and confirm it numerically on the symbolic terms
                        env = _generic_witness(ctx, ob, pathcond, rng)
                    if env is None:
                        env = _rand_env(ctx, rng, cex_env or {})
                    if not _env_satisfies(ctx, env, pathcond):
                        # model point may sit on a boundary in float; accept it anyway, replay decides
                        pass
                    res['ce'].append({'label': ob.label, 'kind': ob.kind, 'env': env, 'path': res['paths'],
                                      'note': rec.get('exception') or rec.get('structural') or ''})
                elif rec['status'] != 'unsat':
                    res['inconclusive'] += 1
                res['obligations'].append(rec)
                if len(res['samples']) < 2 and ob.kind in ('eq', 'holds'):
                    res['samples'].append({'label': ob.label, 'kind': ob.kind, 'status': rec['status'],
                                           'lhs': _short(ob.lhs), 'rhs': _short(ob.rhs),
                                           'path_condition': [('%r is %s' % (sb, v))[:200] for sb, v in pathcond][:6]})
            if tv2_vals and res['paths'] <= job.get('tv2_paths', 2):
                res['tv2'].append({'env': env0, 'vals': _ser_vals(tv2_vals), 'path': res['paths']})
        res['assumptions'] = sorted(set(getattr(holder.get('H'), 'assumptions', []) or []))
        res['nonzero_assumed'] = len(ctx.nonzero_assumed)
        res['derived_atoms'] = {n: '%s(%s)' % (k[0], str(k[1])[:80]) for n, k in ctx.derived_def.items()}
        res['decisions'] = ctx.stats['decisions']
    except Exception as e:   # noqa -- harness failure for this configuration
        res['inconclusive'] += 1
        res['notes'].append('HARNESS-ERROR %s: %s\n%s' % (type(e).__name__, e, traceback.format_exc()[-1500:]))
    res['solver'] = dict(smt.STATS)
    res['wall_s'] = round(time.time() - t0, 3)
    return res


def _short(v):
    s = repr(v)
    s = re.sub(r'\s+', ' ', s)
    return s[:400]


def _ser_vals(d):
    out = {}
    for k, v in d.items():
        out[k] = {'shape': v['shape'],
                  're': [c if (c is None or isinstance(c, str)) else c.real for c in v['vals']],
                  'im': [c if (c is None or isinstance(c, str)) else c.imag for c in v['vals']]}
    return out


# ---------------------------------------------------------------------------------------------
# main side
# ---------------------------------------------------------------------------------------------

def run_concrete(jobs, nproc=16):
    """Run harness jobs on the real prysm under the repository interpreter.  Returns list aligned with jobs."""
    if not jobs:
        return []
    nchunks = min(nproc, len(jobs))
    chunks = [jobs[i::nchunks] for i in range(nchunks)]
    procs = []
    env = dict(os.environ)
    env['PYTHONPATH'] = VERIF + os.pathsep + REPO
    env.pop('PYTHONHASHSEED', None)
    for ch in chunks:
        p = subprocess.Popen([VENV_PY, '-m', 'symx.conc'], stdin=subprocess.PIPE, stdout=subprocess.PIPE,
                             stderr=subprocess.PIPE, cwd=VERIF, env=env, text=True)
        procs.append((p, ch))
    outs = []
    for p, ch in procs:
        so, se = p.communicate(json.dumps(ch))
        if p.returncode != 0:
            outs.append([{'records': [], 'exception': {'type': 'ConcreteRunnerFailure', 'msg': se[-500:], 'where': ''}}
                         for _ in ch])
        else:
            outs.append(json.loads(so))
    res = [None] * len(jobs)
    for ci, o in enumerate(outs):
        for k, r in enumerate(o):
            res[ci + k * nchunks] = r
    return res


def _close(sym, conc):
    """Compare symbolic-evaluated values with the real code's values."""
    if conc is None:
        return False, 'no concrete value'
    if list(sym['shape']) != list(conc['shape']):
        return False, 'shape %s vs %s' % (sym['shape'], conc['shape'])
    cre = conc['re']
    cim = conc.get('im') or [0.0] * len(cre)
    ref = 1e-6
    for a in list(sym['re']) + list(cre):
        if a is not None and not isinstance(a, str):
            ref = max(ref, abs(a))
    worst = 0.0
    for sr, si, cr, ci in zip(sym['re'], sym['im'], cre, cim):
        if isinstance(sr, str):
            continue     # never-written np.empty() content: the real value is arbitrary memory
        if (sr is None) != (cr is None):
            return False, 'NaN pattern'
        if sr is None:
            continue
        worst = max(worst, abs(sr - cr), abs((si or 0.0) - (ci or 0.0)))
    return worst <= TV2_RTOL * ref * 10, 'max err %.3e (ref %.3e)' % (worst, ref)


def load_known():
    p = os.path.join(VERIF, 'known_findings.json')
    if not os.path.exists(p):
        return []
    return json.load(open(p)).get('findings', [])


def match_known(known, prop, cfg, label, note):
    for k in known:
        if k.get('property') != prop or k.get('status') != 'known':
            continue
        try:
            if 'cfg_pred' in k and not eval(k['cfg_pred'], {'cfg': cfg, 're': re}):
                continue
        except Exception:   # noqa
            continue
        if 'label_re' in k and not re.search(k['label_re'], label):
            continue
        if 'note_re' in k and not re.search(k['note_re'], note or ''):
            continue
        return k
    return None


def source_hashes(files):
    out = {}
    for f in files:
        p = os.path.join(REPO, f)
        try:
            out[f] = hashlib.sha256(open(p, 'rb').read()).hexdigest()[:16]
        except OSError:
            out[f] = 'missing'
    return out


def main(prop, tier, seed, only=None, jobs=None):
    t0 = time.time()
    sys.path.insert(0, VERIF)
    mod = importlib.import_module('props.' + prop)
    cfgs = list(mod.configs(tier))
    if only:
        cfgs = [c for c in cfgs if re.search(only, c.get('name', ''))]
    rng = random.Random(seed)
    rng.shuffle(cfgs)
    qtimeout = getattr(mod, 'QTIMEOUT', {}).get(tier, 60 if tier == 'quick' else 300)
    work = [{'prop': prop, 'cfg': c, 'tier': tier, 'seed': seed, 'qtimeout': qtimeout,
             'max_paths': c.get('max_paths', getattr(mod, 'MAX_PATHS', 32)), 'want_smt2': i < 6} for i, c in enumerate(cfgs)]
    ntw = getattr(mod, 'TWINS', {}).get(tier, 3 if tier == 'quick' else 8)
    twin_work = []
    for w in work[:ntw]:
        tw = dict(w)
        tw['cfg'] = dict(w['cfg'], __twin__=True, name=w['cfg'].get('name', '') + '#twin')
        tw['want_smt2'] = False
        twin_work.append(tw)
    work = work + twin_work
    nproc = int(os.environ.get('VERIF_JOBS', jobs or 16))
    results = []
    cfg_timeout = getattr(mod, 'CFG_TIMEOUT', {}).get(tier, 600 if tier == 'quick' else 3600)
    if nproc <= 1 or len(work) <= 1:
        for w in work:
            results.append(process_config(w))
    else:
        ctxm = mp.get_context('fork')
        with ctxm.Pool(min(nproc, len(work)), maxtasksperchild=8) as pool:
            asyncs = [pool.apply_async(process_config, (w,)) for w in work]
            for w, a in zip(work, asyncs):
                try:
                    results.append(a.get(timeout=cfg_timeout))
                except mp.TimeoutError:
                    results.append({'cfg': w['cfg'], 'paths': 0, 'obligations': [], 'ce': [], 'tv2': [],
                                    'notes': ['configuration timed out after %ds' % cfg_timeout], 'inconclusive': 1,
                                    'samples': [], 'solver': {}, 'wall_s': cfg_timeout})
                except Exception as e:   # noqa
                    results.append({'cfg': w['cfg'], 'paths': 0, 'obligations': [], 'ce': [], 'tv2': [],
                                    'notes': ['worker failed: %r' % e], 'inconclusive': 1,
                                    'samples': [], 'solver': {}, 'wall_s': 0})
            pool.terminate()

    return finish(prop, mod, tier, seed, results, t0)


def finish(prop, mod, tier, seed, results, t0):
    """Concrete replays of counterexamples, translator validation 2, twins, known findings, report and evidence."""
    twin_results = [r for r in results if r['cfg'].get('__twin__')]
    results = [r for r in results if not r['cfg'].get('__twin__')]
    # ---- concrete runs: counterexample replays + translator validation 2 ----
    cjobs, cmeta = [], []
    for r in twin_results:
        for ce in r['ce']:
            cjobs.append({'prop': prop, 'cfg': r['cfg'], 'env': ce['env']})
            cmeta.append(('twin', r, ce))
    for r in results:
        for ce in r['ce']:
            cjobs.append({'prop': prop, 'cfg': r['cfg'], 'env': ce['env']})
            cmeta.append(('ce', r, ce))
        for tv in r['tv2']:
            cjobs.append({'prop': prop, 'cfg': r['cfg'], 'env': tv['env']})
            cmeta.append(('tv2', r, tv))
    couts = run_concrete(cjobs)
    known = load_known()
    violations, known_hits, inconclusive_lines = [], [], []
    tv2_points = tv2_bad = 0
    os.makedirs(os.path.join(VERIF, 'evidence', 'replays'), exist_ok=True)
    twin_reproduced = {}
    for (kind, r, item), out in zip(cmeta, couts):
        recs = {x['label']: x for x in out['records']}
        if kind == 'twin':
            rec = recs.get(item['label'])
            if rec is not None and not rec['ok']:
                twin_reproduced[(r['cfg']['name'], item['label'], item['path'])] = True
            continue
        if kind == 'tv2':
            for label, sv in item['vals'].items():
                if label.startswith('linear: complex-linear'):
                    continue     # laid out differently on the two sides; the kernel itself is compared
                rec = recs.get(label)
                if rec is None:
                    if out['exception'] is not None:
                        continue    # real code raised earlier on; the exception obligation handles it
                    ok, why = False, 'label missing in concrete run'
                elif rec.get('lhs') is None:
                    continue    # the concrete side recorded no value for this label (nothing to compare)
                else:
                    ok, why = _close(sv, rec['lhs'])
                tv2_points += 1
                if not ok:
                    tv2_bad += 1
                    r['inconclusive'] += 1
                    inconclusive_lines.append('INCONCLUSIVE property=%s cfg=%s label=%s translator-validation mismatch: %s'
                                              % (prop, r['cfg'].get('name'), label, why))
            continue
        # counterexample replay
        label = item['label']
        reproduced = False
        detail = ''
        if item['kind'] == 'raises':
            if label == 'no-exception':
                # reproduced only if the real code itself raised (a frame inside prysm), not the harness
                ex = out['exception']
                snote = item.get('note') or ''
                if '@harness:' in snote:
                    reproduced = ex is not None and not ex.get('where') and ex.get('hline') == int(snote.rsplit('@harness:', 1)[1]) \
                        and snote.startswith(ex.get('type', '?') + ':')
                else:
                    reproduced = ex is not None and bool(ex.get('where'))
                detail = json.dumps(out['exception'])
            else:
                rec = recs.get(label)
                reproduced = rec is not None and not rec['ok']
                detail = rec['note'] if rec else 'label not reached'
        else:
            rec = recs.get(label)
            if rec is not None:
                reproduced = not rec['ok']
                detail = rec.get('note', '')
            elif out['exception'] is not None:
                detail = 'concrete run raised %s' % json.dumps(out['exception'])
        if not reproduced:
            r['inconclusive'] += 1
            inconclusive_lines.append('INCONCLUSIVE property=%s cfg=%s label=%s solver counterexample did not reproduce on the real code (%s)'
                                      % (prop, r['cfg'].get('name'), label, detail[:200]))
            continue
        note = (item.get('note') or '') + ' ' + detail
        k = match_known(known, prop, r['cfg'], label, note)
        payload = {'property': prop, 'cfg': r['cfg'], 'env': item['env'], 'label': label, 'detail': detail[:500],
                   'note': item.get('note', '')}
        h = hashlib.sha256(json.dumps(payload, sort_keys=True).encode()).hexdigest()[:12]
        path = os.path.join(VERIF, 'evidence', 'replays', '%s-%s.json' % (prop, h))
        if k is not None:
            known_hits.append((k, r['cfg'], label))
        else:
            with open(path, 'w') as f:
                json.dump(payload, f, indent=1)
            violations.append((path, r['cfg'], label, detail))

    twins_total = twins_ok = 0
    for r in twin_results:
        for o in r['obligations']:
            if o['kind'] not in ('eq', 'holds'):
                continue
            twins_total += 1
            if o['status'] == 'sat' and twin_reproduced.get((r['cfg']['name'], o['label'], o['path'])):
                twins_ok += 1
            else:
                inconclusive_lines.append('INCONCLUSIVE property=%s cfg=%s label=%s reachability twin was not flagged (status=%s): the harness may be vacuous here'
                                          % (prop, r['cfg'].get('name'), o['label'], o['status']))
        if not r['obligations']:
            inconclusive_lines.append('INCONCLUSIVE property=%s cfg=%s reachability twin produced no obligations: %s'
                                      % (prop, r['cfg'].get('name'), '; '.join(r['notes'])[:300]))
    TWIN_STATS['total'], TWIN_STATS['ok'] = twins_total, twins_ok
    # ---- second solver on sampled queries ----
    XCHECK.update({'solver': 'cvc5 (binary on PATH)', 'queries': 0, 'agree': 0, 'unknown': 0, 'disagree': 0})
    for r in results:
        for o in r['obligations']:
            if 'cvc5' in o:
                XCHECK['queries'] += 1
                if o['cvc5'] == 'unknown':
                    XCHECK['unknown'] += 1
                elif o['cvc5'] == o['status']:
                    XCHECK['agree'] += 1
                else:
                    XCHECK['disagree'] += 1
                    r['inconclusive'] += 1
                    inconclusive_lines.append('INCONCLUSIVE property=%s cfg=%s label=%s z3 answered %s but cvc5 answered %s on the same SMT-LIB text'
                                              % (prop, r['cfg'].get('name'), o['label'], o['status'], o['cvc5']))
    # ---- report ----
    for line in inconclusive_lines[:40]:
        print(line)
    for r in results:
        for o in r['obligations']:
            if o['status'] not in ('unsat', 'sat'):
                print('INCONCLUSIVE property=%s cfg=%s label=%s solver answered %s%s' % (prop, r['cfg'].get('name'), o['label'], o['status'],
                                                                                      (' (' + o['error'] + ')') if o.get('error') else ''))
        for n in r['notes']:
            print('INCONCLUSIVE property=%s cfg=%s %s' % (prop, r['cfg'].get('name'), n.splitlines()[0][:300]))
            if 'HARNESS-ERROR' in n:
                print(n)
    seen = set()
    for k, cfg, label in known_hits:
        key = k.get('id') or k.get('what')
        if key in seen:
            continue
        seen.add(key)
        print('KNOWN-FINDING: property=%s %s' % (prop, k.get('what')))
    shown = set()
    for path, cfg, label, detail in violations:
        key = (cfg.get('name'), label.split('[')[0])
        if len(shown) < 25 and key not in shown:
            shown.add(key)
            print('VIOLATION property=%s replay=%s   # cfg=%s label=%s %s' % (prop, path, cfg.get('name'), label, detail[:160]))
    write_evidence(prop, mod, tier, seed, results, violations, known_hits, tv2_points, tv2_bad, time.time() - t0)
    n_ob = sum(len(r['obligations']) for r in results)
    n_dis = sum(1 for r in results for o in r['obligations'] if o['status'] == 'unsat')
    n_inc = sum(r['inconclusive'] for r in results)
    print('%s %s: configs=%d paths=%d obligations=%d discharged=%d violations=%d known=%d inconclusive=%d tv2=%d/%d twins=%d/%d wall=%.1fs'
          % (prop, tier, len(results), sum(r['paths'] for r in results), n_ob, n_dis, len(violations), len(known_hits),
             n_inc, tv2_points - tv2_bad, tv2_points, TWIN_STATS['ok'], TWIN_STATS['total'], time.time() - t0))
    return 1 if violations else 0


TWIN_STATS = {'total': 0, 'ok': 0}
XCHECK = {}


def write_evidence(prop, mod, tier, seed, results, violations, known_hits, tv2_points, tv2_bad, wall):
    import z3
    obs = [o for r in results for o in r['obligations']]
    n_ob = len(obs)
    n_dis = sum(1 for o in obs if o['status'] == 'unsat')
    queries = sum(r.get('solver', {}).get('queries', 0) for r in results)
    stime = sum(r.get('solver', {}).get('solver_time_s', 0.0) for r in results)
    nontrivial = sum(1 for o in obs if o.get('atoms', 0) > 0 or o.get('syntactic_mismatch', 0) > 0)
    samples = []
    for r in results:
        for s in r['samples']:
            if len(samples) < 4:
                s = dict(s)
                s['cfg'] = r['cfg']
                samples.append(s)
    smt_sample = None
    for o in obs:
        if 'smt2_head' in o:
            smt_sample = o['smt2_head']
            break
    files = getattr(mod, 'FILES', [])
    ev = {
        'property_id': prop,
        'tier': tier,
        'seed': seed,
        'level': 'other',
        'coverage': {
            'explanation': getattr(mod, 'EXPLANATION', '') + ' Bounded symbolic execution of the real source '
            '(lifted import from /repo at run time, symbolic array contents / real parameters, concrete shapes and '
            'orders enumerated up to the stated bounds); every obligation is decided by z3 (unsat = holds for all values '
            'of the symbols under the stated preconditions); sat models are replayed on the unmodified code under '
            '/venv/bin/python before being reported.',
            'functions_encoded': getattr(mod, 'FUNCTIONS', []),
            'source_sha256_16': source_hashes(files),
            'bounds': getattr(mod, 'BOUNDS', {}).get(tier, ''),
            'outside_claim': getattr(mod, 'OUTSIDE', ''),
            'configs_explored': len(results),
            'paths': sum(r['paths'] for r in results),
            'obligations': n_ob,
            'discharged': n_dis,
            'inconclusive': sum(r['inconclusive'] for r in results),
            'evaluations': queries,
            'distinct_nontrivial': nontrivial,
            'rule': 'evaluations = solver queries issued (feasibility + obligations); distinct_nontrivial = obligations '
                    'whose SMT problem mentions at least one free symbol (counted per obligation; each obligation belongs '
                    'to a distinct (configuration, path, label) triple)',
            'queries': queries,
            'solver_time_s': round(stime, 3),
            'solver_versions': {'z3': z3.get_version_string()},
            'stubs': getattr(mod, 'STUBS', []),
            'reachability_twins': dict(TWIN_STATS),
            'second_solver_on_sampled_queries': dict(XCHECK),
            'tv2_points': tv2_points,
            'tv2_mismatches': tv2_bad,
            'known_findings_hit': sorted({(k.get('id') or k.get('what')) for k, _c, _l in known_hits}),
            'samples': samples or [{'note': 'no symbolic obligation sample recorded'}],
            'smt2_sample': smt_sample,
            'exhaustive': False,
            'per_config': [{'cfg': r['cfg'].get('name'), 'paths': r['paths'], 'obligations': len(r['obligations']),
                            'wall_s': r.get('wall_s'), 'inconclusive': r['inconclusive']} for r in results][:400],
        },
        'assumptions': sorted(set(a for r in results for a in r.get('assumptions', []))
                              | set(getattr(mod, 'ASSUMPTIONS', []))),
        'wall_s': round(wall, 2),
        'violations': len(violations),
    }
    p = os.path.join(VERIF, 'evidence', prop + '.json')
    with open(p, 'w') as f:
        json.dump(ev, f, indent=1, default=str)


def replay(path):
    payload = json.load(open(path))
    prop = payload['property']
    out = run_concrete([{'prop': prop, 'cfg': payload['cfg'], 'env': payload['env']}])[0]
    recs = {x['label']: x for x in out['records']}
    label = payload['label']
    rec = recs.get(label)
    print(json.dumps({'label': label, 'record': rec, 'exception': out['exception']}, indent=1)[:3000])
    bad = (rec is not None and not rec['ok']) or (label == 'no-exception' and out['exception'] is not None)
    if bad:
        print('VIOLATION property=%s replay=%s' % (prop, path))
        return 1
    print('not reproduced')
    return 0
