"""symx.lift -- lifted import of the real prysm source (DESIGN.md section 2.1).

Every `prysm.*` module is loaded from the files under REPO at call time and passed through a small
ast.NodeTransformer before compile():

  float / complex literals        -> __vf__('<repr>') / __vc__('<repr of imag>')
  a / b, a ** b, a /= b, a **= b  -> __vdiv__(a,b) / __vpow__(a,b) / x = __vidiv__(x,b) / x = __vipow__(x,b)
  builtins int float round complex isinstance (when not rebound in the module)
                                  -> __vint__ __vfloat__ __vround__ __vcomplex__ __visinstance__
  import math / import numpy as truenp / from math import ceil
                                  -> bound to helper proxies

Nothing else is rewritten.  This file is stdlib-only so that it can also run, in *identity* mode, under the
repository's own interpreter for translator validation (the repository test-suite must pass unchanged on the
lifted package).
"""
import ast
import sys
import os
import importlib.abc
import importlib.util
import operator

REPO = os.environ.get('PRYSM_REPO', '/repo')

_REWRITE_BUILTINS = {'int': '__vint__', 'float': '__vfloat__', 'round': '__vround__',
                     'complex': '__vcomplex__', 'isinstance': '__visinstance__', 'open': '__vopen__'}


class _Lifter(ast.NodeTransformer):
    def __init__(self, rebound, lift_subscripts=False):
        self.rebound = rebound
        self.lift_subscripts = lift_subscripts

    def visit_Subscript(self, node):
        self.generic_visit(node)
        if not self.lift_subscripts or not isinstance(node.ctx, ast.Load):
            return node
        sl = node.slice
        if isinstance(sl, ast.Slice) or (isinstance(sl, ast.Tuple) and any(isinstance(e, (ast.Slice, ast.Starred)) for e in sl.elts)):
            return node
        return ast.copy_location(ast.Call(func=ast.Name(id='__vgetitem__', ctx=ast.Load()), args=[node.value, sl], keywords=[]), node)

    def visit_Constant(self, node):
        v = node.value
        if isinstance(v, bool):
            return node
        if isinstance(v, float):
            return ast.copy_location(ast.Call(func=ast.Name(id='__vf__', ctx=ast.Load()),
                                              args=[ast.Constant(value=repr(v))], keywords=[]), node)
        if isinstance(v, complex):
            return ast.copy_location(ast.Call(func=ast.Name(id='__vc__', ctx=ast.Load()),
                                              args=[ast.Constant(value=repr(v.imag))], keywords=[]), node)
        return node

    def visit_BinOp(self, node):
        self.generic_visit(node)
        if isinstance(node.op, ast.Div):
            fn = '__vdiv__'
        elif isinstance(node.op, ast.Pow):
            fn = '__vpow__'
        else:
            return node
        return ast.copy_location(ast.Call(func=ast.Name(id=fn, ctx=ast.Load()),
                                          args=[node.left, node.right], keywords=[]), node)

    def visit_AugAssign(self, node):
        self.generic_visit(node)
        if isinstance(node.op, ast.Div):
            fn = '__vidiv__'
        elif isinstance(node.op, ast.Pow):
            fn = '__vipow__'
        else:
            return node
        load = _as_load(node.target)
        new = ast.Assign(targets=[node.target],
                         value=ast.Call(func=ast.Name(id=fn, ctx=ast.Load()), args=[load, node.value], keywords=[]))
        return ast.copy_location(new, node)

    def visit_Name(self, node):
        if isinstance(node.ctx, ast.Load) and node.id in _REWRITE_BUILTINS and node.id not in self.rebound:
            return ast.copy_location(ast.Name(id=_REWRITE_BUILTINS[node.id], ctx=ast.Load()), node)
        return node

    def visit_Import(self, node):
        out = []
        for a in node.names:
            if a.name == 'math':
                out.append(_assign(a.asname or 'math', '__vmath__', node))
            elif a.name == 'numpy' and (a.asname == 'truenp'):
                out.append(_assign('truenp', '__vtruenp__', node))
            else:
                out.append(ast.copy_location(ast.Import(names=[a]), node))
        return out

    def visit_ImportFrom(self, node):
        if node.module == 'math' and node.level == 0:
            out = []
            for a in node.names:
                new = ast.Assign(targets=[ast.Name(id=a.asname or a.name, ctx=ast.Store())],
                                 value=ast.Attribute(value=ast.Name(id='__vmath__', ctx=ast.Load()),
                                                     attr=a.name, ctx=ast.Load()))
                out.append(ast.copy_location(new, node))
            return out
        if node.module == 'pathlib' and node.level == 0 and [a.name for a in node.names] == ['Path']:
            # the file system is environment: Path(file).read_text() must reach the in-memory transport
            return _assign(node.names[0].asname or 'Path', '__vPath__', node)
        return node


def _assign(name, src, node):
    return ast.copy_location(ast.Assign(targets=[ast.Name(id=name, ctx=ast.Store())],
                                        value=ast.Name(id=src, ctx=ast.Load())), node)


def _as_load(t):
    import copy
    t2 = copy.deepcopy(t)
    for n in ast.walk(t2):
        if hasattr(n, 'ctx') and n is t2:
            n.ctx = ast.Load()
    t2.ctx = ast.Load()
    return t2


def _rebound_names(tree):
    """Names from _REWRITE_BUILTINS that the module binds itself anywhere (conservative scope check)."""
    out = set()
    for n in ast.walk(tree):
        if isinstance(n, ast.Name) and isinstance(n.ctx, (ast.Store, ast.Del)) and n.id in _REWRITE_BUILTINS:
            out.add(n.id)
        elif isinstance(n, ast.arg) and n.arg in _REWRITE_BUILTINS:
            out.add(n.arg)
        elif isinstance(n, (ast.FunctionDef, ast.ClassDef)) and n.name in _REWRITE_BUILTINS:
            out.add(n.name)
        elif isinstance(n, ast.alias) and (n.asname or n.name) in _REWRITE_BUILTINS:
            out.add(n.asname or n.name)
    return out


_CODE_CACHE = {}


LIFT_SUBSCRIPTS = False


def lifted_code(path):
    st = os.stat(path)
    key = (path, st.st_mtime_ns, st.st_size, LIFT_SUBSCRIPTS)
    c = _CODE_CACHE.get(key)
    if c is None:
        with open(path, 'rb') as f:
            src = f.read()
        tree = ast.parse(src, filename=path)
        tree = _Lifter(_rebound_names(tree), LIFT_SUBSCRIPTS).visit(tree)
        ast.fix_missing_locations(tree)
        c = compile(tree, path, 'exec')
        _CODE_CACHE[key] = c
    return c


# ---------------------------------------------------------------------------------------------
# helper sets
# ---------------------------------------------------------------------------------------------

def identity_helpers():
    import math
    import numpy
    return {
        '__vf__': float,
        '__vc__': lambda s: complex(0.0, float(s)),
        '__vdiv__': operator.truediv,
        '__vpow__': operator.pow,
        '__vidiv__': operator.itruediv,
        '__vipow__': operator.ipow,
        '__vint__': int, '__vfloat__': float, '__vround__': round, '__vcomplex__': complex,
        '__visinstance__': isinstance,
        '__vmath__': math, '__vtruenp__': numpy, '__vgetitem__': operator.getitem, '__vopen__': open,
        '__vPath__': __import__('pathlib').Path,
    }


HELPERS = None   # set by install()


class _Loader(importlib.abc.Loader):
    def __init__(self, path, is_pkg):
        self.path, self.is_pkg = path, is_pkg

    def create_module(self, spec):
        return None

    def exec_module(self, module):
        module.__dict__.update(HELPERS)
        module.__file__ = self.path
        exec(lifted_code(self.path), module.__dict__)
        vs = HELPERS.get('__vspecial__')
        if vs is not None:
            sp = module.__dict__.get('special')
            if getattr(sp, '__name__', '') == 'scipy.special':
                module.__dict__['special'] = vs


class _Finder(importlib.abc.MetaPathFinder):
    def find_spec(self, fullname, path, target=None):
        if fullname != 'prysm' and not fullname.startswith('prysm.'):
            return None
        rel = fullname.split('.')
        base = os.path.join(REPO, *rel)
        if os.path.isdir(base) and os.path.exists(os.path.join(base, '__init__.py')):
            p = os.path.join(base, '__init__.py')
            spec = importlib.util.spec_from_loader(fullname, _Loader(p, True), origin=p, is_package=True)
            spec.submodule_search_locations = [base]
            return spec
        p = base + '.py'
        if os.path.exists(p):
            return importlib.util.spec_from_loader(fullname, _Loader(p, False), origin=p)
        return None


_FINDER = _Finder()


def purge():
    for k in [k for k in sys.modules if k == 'prysm' or k.startswith('prysm.')]:
        del sys.modules[k]


def install(helpers, lift_subscripts=False):
    """Install the lifted importer with the given helper dict and purge already-imported prysm modules."""
    global HELPERS, LIFT_SUBSCRIPTS
    HELPERS = dict(helpers)
    LIFT_SUBSCRIPTS = lift_subscripts
    if _FINDER not in sys.meta_path:
        sys.meta_path.insert(0, _FINDER)
    purge()


def uninstall():
    if _FINDER in sys.meta_path:
        sys.meta_path.remove(_FINDER)
    purge()


def source_files():
    out = []
    for root, _d, files in os.walk(os.path.join(REPO, 'prysm')):
        for f in files:
            if f.endswith('.py'):
                out.append(os.path.join(root, f))
    return sorted(out)
