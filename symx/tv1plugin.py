"""pytest plugin: run the repository's own test-suite against the *lifted* prysm package in identity mode
(translator validation 1, DESIGN.md section 2.7-1).  Load with  -p symx.tv1plugin  and PYTHONPATH=/verif."""
from symx import lift

lift.install(lift.identity_helpers())
