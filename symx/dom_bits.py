"""symx.dom_bits -- bit-precise scalar domain "B" (DESIGN.md 2.3-B): Python ints as 64-bit bit-vectors, Python/numpy floats as
IEEE-754 binary64 with the rounding mode each operation really uses.  The same lifted source is executed; only the scalar class and the
numpy namespace differ.  Used for the index-convention functions (C11), whose failure mode is floating-point sqrt/ceil on integers."""
import z3

from . import lift

import os
W = int(os.environ.get('SYMX_BITS_WIDTH', '64'))     # width of the bit-vectors standing for Python ints (no-overflow side obligations make any width sound)
F64 = z3.Float64()
RNE = z3.RNE()


class BitsAbort(BaseException):
    pass


class Capture(BaseException):
    """Raised by a capture hook to stop the run once the term of interest has been produced."""

    def __init__(self, value):
        self.value = value


class BCtx:
    current = None

    def __init__(self):
        self.pre = []            # z3 Bools: preconditions
        self.lemmas = []         # z3 Bools assumed (proved elsewhere) -- listed in the evidence
        self.plan = []
        self.trail = []          # (z3 Bool, value, forced)
        self.int_hook = None     # called by int(Fx float) -> may return a python int (concretisation under a lemma)
        self.side = []           # no-overflow side conditions (z3 Bools) that must hold (become obligations)
        self.queries = 0
        self.solver_time = 0.0
        self.fixed = False       # exact-float mode (kind 'x')
        self.ceil_hook = None
        self.nfresh = 0

    def ceil_sqrt_lemma(self, x):
        """ceil(sqrt(x)) for an integer x in exact-float mode: a fresh integer c with (c-1)^2 < x <= c^2 -- the statement proved
        bit-precisely in stage A for every x in the bound."""
        if x.k != 'i':
            x = x.toint()
        c = z3.BitVec('c%d' % self.nfresh, W)
        self.nfresh += 1
        self.lemmas.append(z3.And(c >= 0, c < (1 << min(31, W // 2 - 2)), (c - 1) * (c - 1) < x.z, x.z <= c * c))
        return Fx('x', c << FRAC)

    def check(self, extra, timeout_s=60):
        import time
        s = z3.Solver()
        s.set('timeout', int(timeout_s * 1000))
        s.add(*self.pre)
        s.add(*self.lemmas)
        for b, v, _ in self.trail:
            s.add(b if v else z3.Not(b))
        s.add(*extra)
        t = time.time()
        r = s.check()
        self.queries += 1
        self.solver_time += time.time() - t
        return str(r), s

    def decide(self, zb):
        i = len(self.trail)
        if i < len(self.plan):
            v = self.plan[i]
            self.trail.append((zb, v, False))
            return v
        rt, _ = self.check([zb], 30)
        rf, _ = self.check([z3.Not(zb)], 30)
        can_t, can_f = rt != 'unsat', rf != 'unsat'
        if can_t and not can_f:
            self.trail.append((zb, True, True))
            self.plan.append(True)
            return True
        if can_f and not can_t:
            self.trail.append((zb, False, True))
            self.plan.append(False)
            return False
        if not can_t and not can_f:
            raise BitsAbort('infeasible path')
        self.trail.append((zb, True, False))
        self.plan.append(True)
        return True


def cur():
    return BCtx.current


def explore(ctx, fn, max_paths=64):
    plans = [[]]
    n = 0
    while plans:
        plan = plans.pop()
        if n >= max_paths:
            yield ('budget', None, None)
            return
        n += 1
        ctx.plan = list(plan)
        ctx.trail = []
        BCtx.current = ctx
        try:
            res, err = fn(), None
        except Capture as c:
            res, err = c.value, None
        except BitsAbort as e:
            res, err = None, e
        except Exception as e:   # noqa
            res, err = None, e
        finally:
            BCtx.current = None
        trail = list(ctx.trail)
        for j in range(len(plan), len(trail)):
            if not trail[j][2]:
                plans.append([t[1] for t in trail[:j]] + [not trail[j][1]])
        yield (trail, res, err)


class FBool:
    def __init__(self, z):
        self.z = z

    def __bool__(self):
        return cur().decide(self.z)

    def __and__(self, o):
        return FBool(z3.And(self.z, _zb(o)))
    __rand__ = __and__

    def __or__(self, o):
        return FBool(z3.Or(self.z, _zb(o)))
    __ror__ = __or__

    def __invert__(self):
        return FBool(z3.Not(self.z))


def _zb(o):
    return o.z if isinstance(o, FBool) else z3.BoolVal(bool(o))


FRAC = 2     # fixed-point fractional bits of kind 'x'


class Fx:
    """kind 'i': signed 64-bit bit-vector (a Python int);  kind 'f': binary64;  kind 'x': a float known to be a multiple of 1/4 of
    small magnitude, held exactly as value*4 in a bit-vector.  Kind 'x' is only used in 'exact-float mode' (BCtx.fixed): every
    operation then carries the side obligation that its exact result is again such a number, which -- IEEE-754 operations being
    correctly rounded and all multiples of 1/4 below 2^50 being representable -- means the float operation returns it exactly."""
    __slots__ = ('k', 'z')

    def __init__(self, k, z):
        self.k, self.z = k, z

    # -- coercion -----------------------------------------------------------------------------
    @staticmethod
    def lift(v):
        if isinstance(v, Fx):
            return v
        if isinstance(v, bool):
            return Fx('i', z3.BitVecVal(int(v), W))
        if isinstance(v, int):
            return Fx('i', z3.BitVecVal(v, W))
        if isinstance(v, float):
            return Fx('f', z3.FPVal(v, F64))
        import fractions
        if isinstance(v, fractions.Fraction):
            return Fx('f', z3.FPVal(float(v), F64))
        raise TypeError('cannot lift %r' % type(v))

    def tof(self):
        if self.k == 'f':
            return self.z
        if self.k == 'x':
            raise TypeError('fixed-point value used in bit-precise float mode')
        return z3.fpSignedToFP(RNE, self.z, F64)

    def tox(self):
        if self.k == 'x':
            return self.z
        if self.k == 'i':
            _small(self.z)
            return self.z << FRAC
        raise TypeError('binary64 value used in exact-float mode')

    def _pair(self, o):
        if isinstance(o, float) and getattr(cur(), 'fixed', False):
            q = o * (1 << FRAC)
            if q != int(q):
                raise TypeError('float literal %r is not a multiple of 1/4' % o)
            o = Fx('x', z3.BitVecVal(int(q), W))
        o = Fx.lift(o)
        if self.k == 'i' and o.k == 'i':
            return 'i', self.z, o.z
        if self.k == 'x' or o.k == 'x' or (getattr(cur(), 'fixed', False) and 'f' not in (self.k, o.k)):
            return 'x', self.tox(), o.tox()
        return 'f', self.tof(), o.tof()

    # -- arithmetic ---------------------------------------------------------------------------
    def __add__(self, o):
        k, a, b = self._pair(o)
        if k == 'i':
            cur().side.append(z3.BVAddNoOverflow(a, b, True))
            cur().side.append(z3.BVAddNoUnderflow(a, b))
            return Fx('i', a + b)
        if k == 'x':
            _small(a + b)
            return Fx('x', a + b)
        return Fx('f', z3.fpAdd(RNE, a, b))
    __radd__ = __add__

    def __sub__(self, o):
        k, a, b = self._pair(o)
        if k == 'i':
            cur().side.append(z3.BVSubNoOverflow(a, b))
            cur().side.append(z3.BVSubNoUnderflow(a, b, True))
            return Fx('i', a - b)
        if k == 'x':
            _small(a - b)
            return Fx('x', a - b)
        return Fx('f', z3.fpSub(RNE, a, b))

    def __rsub__(self, o):
        return Fx.lift(o).__sub__(self)

    def __mul__(self, o):
        k, a, b = self._pair(o)
        if k == 'i':
            cur().side.append(z3.BVMulNoOverflow(a, b, True))
            cur().side.append(z3.BVMulNoUnderflow(a, b))
            return Fx('i', a * b)
        if k == 'x':
            _small(a), _small(b)
            p = a * b
            cur().side.append(z3.Extract(FRAC - 1, 0, p) == 0)     # the exact product is a multiple of 1/4
            return Fx('x', p >> FRAC)
        return Fx('f', z3.fpMul(RNE, a, b))
    __rmul__ = __mul__

    def __truediv__(self, o):
        if getattr(cur(), 'fixed', False):
            k, a, b = self._pair(o) if (self.k == 'x' or (isinstance(o, Fx) and o.k == 'x')) else ('x', self.tox(), Fx.lift(o).tox())
            _small(a)
            num = a << FRAC
            cur().side.append(z3.And(b != 0, z3.SRem(num, b) == 0))    # the exact quotient is a multiple of 1/4
            return Fx('x', num / b)
        o = Fx.lift(o)
        return Fx('f', z3.fpDiv(RNE, self.tof(), o.tof()))     # int / int is a float division in Python too

    def __rtruediv__(self, o):
        return Fx.lift(o).__truediv__(self)

    def __floordiv__(self, o):
        k, a, b = self._pair(o)
        if k != 'i':
            raise TypeError('float floordiv')
        # python floor division; operands here are non-negative in all uses: assert and use signed division
        cur().side.append(z3.And(a >= 0, b > 0))
        return Fx('i', a / b)

    def __mod__(self, o):
        k, a, b = self._pair(o)
        if k == 'i':
            cur().side.append(z3.And(a >= 0, b > 0))
            return Fx('i', z3.SRem(a, b))
        return fmod_floor(Fx('f', a), Fx('f', b))

    def __and__(self, o):
        k, a, b = self._pair(o)
        if k != 'i':
            raise TypeError('bitwise and of floats')
        return Fx('i', a & b)
    __rand__ = __and__

    def __neg__(self):
        if self.k in ('i', 'x'):
            return Fx(self.k, -self.z)
        return Fx('f', z3.fpNeg(self.z))

    def __pos__(self):
        return self

    def __abs__(self):
        if self.k in ('i', 'x'):
            return Fx(self.k, z3.If(self.z < 0, -self.z, self.z))
        return Fx('f', z3.fpAbs(self.z))

    def __pow__(self, e):
        if isinstance(e, Fx):
            raise TypeError('symbolic exponent')
        import fractions
        if isinstance(e, (float, fractions.Fraction)) and float(e) == 0.5:
            return self.sqrt()
        e = int(e)
        if e <= 0:
            raise TypeError('non-positive power')
        r = self
        for _ in range(e - 1):
            r = r * self
        return r

    # -- float functions ----------------------------------------------------------------------
    def sqrt(self):
        return Fx('f', z3.fpSqrt(RNE, self.tof()))

    def ceil(self):
        if self.k == 'x' or (self.k == 'i' and getattr(cur(), 'fixed', False)):
            z = self.tox()
            return Fx('x', -((-z) & ~z3.BitVecVal((1 << FRAC) - 1, W)))
        return Fx('f', z3.fpRoundToIntegral(z3.RTP(), self.tof()))

    def floor(self):
        if self.k == 'x' or (self.k == 'i' and getattr(cur(), 'fixed', False)):
            z = self.tox()
            return Fx('x', z & ~z3.BitVecVal((1 << FRAC) - 1, W))
        return Fx('f', z3.fpRoundToIntegral(z3.RTN(), self.tof()))

    def __int__(self):
        raise TypeError('use vint')

    def toint(self):
        if self.k == 'i':
            return self
        if self.k == 'x':
            # truncation toward zero
            return Fx('i', z3.If(self.z >= 0, self.z >> FRAC, -((-self.z) >> FRAC)))
        return Fx('i', z3.fpToSBV(z3.RTZ(), self.z, z3.BitVecSort(W)))

    def __index__(self):
        h = cur().index_hook if hasattr(cur(), 'index_hook') else None
        if h is None:
            raise TypeError('symbolic index')
        return h(self)

    # -- comparisons --------------------------------------------------------------------------
    def _cmp(self, o, fi, ff):
        k, a, b = self._pair(o)
        return FBool(fi(a, b) if k in ('i', 'x') else ff(a, b))

    def __lt__(self, o):
        return self._cmp(o, lambda a, b: a < b, z3.fpLT)

    def __le__(self, o):
        return self._cmp(o, lambda a, b: a <= b, z3.fpLEQ)

    def __gt__(self, o):
        return self._cmp(o, lambda a, b: a > b, z3.fpGT)

    def __ge__(self, o):
        return self._cmp(o, lambda a, b: a >= b, z3.fpGEQ)

    def __eq__(self, o):
        return self._cmp(o, lambda a, b: a == b, z3.fpEQ)

    def __ne__(self, o):
        return self._cmp(o, lambda a, b: a != b, lambda a, b: z3.Not(z3.fpEQ(a, b)))

    def __hash__(self):
        return id(self)

    def __bool__(self):
        return bool(self != 0)


def _small(z):
    """side obligation: |value| < 2^50 (so that value*4 and products stay far from 64-bit overflow and inside binary64's exact range)"""
    lim = z3.BitVecVal(1 << min(50, W - 4), W)
    cur().side.append(z3.And(z < lim, z > -lim))


def fmod_floor(a, b):
    """numpy.mod on floats: a - floor(a/b)*b"""
    if a.k == 'x' or b.k == 'x':
        q = (a / b).floor()
        return a - q * b
    q = Fx('f', z3.fpDiv(RNE, a.z, b.z)).floor()
    return Fx('f', z3.fpSub(RNE, a.z, z3.fpMul(RNE, q.z, b.z)))


# ---------------------------------------------------------------------------------------------
# numpy-shaped namespace and lifted-helper set for this domain
# ---------------------------------------------------------------------------------------------

class _SqrtOf:
    def __init__(self, x):
        self.x = x


class _BitsNp:
    def sqrt(self, x):
        if getattr(cur(), 'fixed', False):
            return _SqrtOf(Fx.lift(x))      # only ceil(sqrt(integer)) is supported in exact-float mode (under the stage-A lemma)
        return Fx.lift(x).sqrt()

    def ceil(self, x):
        if isinstance(x, _SqrtOf):
            return cur().ceil_sqrt_lemma(x.x)
        h = getattr(cur(), 'ceil_hook', None)
        if h is not None:
            return h(Fx.lift(x).ceil())
        return Fx.lift(x).ceil()

    def floor(self, x):
        return Fx.lift(x).floor()

    def mod(self, a, b):
        a, b = Fx.lift(a), Fx.lift(b)
        if a.k == 'i' and b.k == 'i' and not getattr(cur(), 'fixed', False):
            return a % b
        if getattr(cur(), 'fixed', False):
            return fmod_floor(Fx('x', a.tox()), Fx('x', b.tox()))
        return fmod_floor(Fx('f', a.tof()), Fx('f', b.tof()))

    def abs(self, x):
        return abs(Fx.lift(x))

    absolute = abs
    fabs = abs

    def rint(self, x):
        x = Fx.lift(x)
        if x.k == 'i':
            return x
        return Fx('f', z3.fpRoundToIntegral(RNE, x.tof()))

    def trunc(self, x):
        x = Fx.lift(x)
        if x.k == 'i':
            return x
        return Fx('f', z3.fpRoundToIntegral(z3.RTZ(), x.tof()))

    fix = trunc

    def round(self, x, decimals=0):
        """numpy.round: rint(x * 10**d) / 10**d  (round-half-even on the scaled value)"""
        x = Fx.lift(x)
        if x.k == 'i':
            return x
        if decimals == 0:
            return self.rint(x)
        sc = z3.FPVal(float(10 ** decimals), F64)
        y = z3.fpRoundToIntegral(RNE, z3.fpMul(RNE, x.tof(), sc))
        return Fx('f', z3.fpDiv(RNE, y, sc))

    around = round

    def isclose(self, a, b, rtol=1e-05, atol=1e-08, **k):
        a, b = Fx('f', Fx.lift(a).tof()), Fx('f', Fx.lift(b).tof())
        lhs = z3.fpAbs(z3.fpSub(RNE, a.z, b.z))
        rhs = z3.fpAdd(RNE, z3.FPVal(float(atol), F64), z3.fpMul(RNE, z3.FPVal(float(rtol), F64), z3.fpAbs(b.z)))
        return FBool(z3.fpLEQ(lhs, rhs))

    def allclose(self, a, b, **k):
        return self.isclose(a, b, **k)

    def where(self, c, a, b):
        a, b = Fx.lift(a), Fx.lift(b)
        k, za, zb = a._pair(b)
        return Fx(k, z3.If(_zb(c), za, zb))

    def maximum(self, a, b):
        a, b = Fx.lift(a), Fx.lift(b)
        k, za, zb = a._pair(b)
        return Fx(k, z3.If((za >= zb) if k != 'f' else z3.fpGEQ(za, zb), za, zb))

    def minimum(self, a, b):
        a, b = Fx.lift(a), Fx.lift(b)
        k, za, zb = a._pair(b)
        return Fx(k, z3.If((za <= zb) if k != 'f' else z3.fpLEQ(za, zb), za, zb))

    def sign(self, x):
        x = Fx.lift(x)
        if x.k == 'f':
            one = z3.FPVal(1.0, F64)
            return Fx('f', z3.If(z3.fpGT(x.z, z3.FPVal(0.0, F64)), one, z3.If(z3.fpLT(x.z, z3.FPVal(0.0, F64)), z3.fpNeg(one), z3.FPVal(0.0, F64))))
        return Fx(x.k, z3.If(x.z > 0, z3.BitVecVal(1, W) if x.k == 'i' else z3.BitVecVal(1 << FRAC, W),
                             z3.If(x.z < 0, z3.BitVecVal(-1, W) if x.k == 'i' else z3.BitVecVal(-(1 << FRAC), W), z3.BitVecVal(0, W))))

    def float64(self, x=0.0):
        return _vfloat(x)

    def int64(self, x=0):
        return _vint(x)

    def __getattr__(self, name):
        import numpy
        return getattr(numpy, name)


def _vint(x=0, *a):
    if isinstance(x, Fx):
        ctx = cur()
        if x.k == 'f' and ctx.int_hook is not None:
            r = ctx.int_hook(x)
            if r is not None:
                return r
        return x.toint()
    return int(x, *a)


def _vround(x, n=None):
    if isinstance(x, Fx):
        r = _BitsNp().round(x, n or 0)
        return r.toint() if n is None else r
    return round(x, n) if n is not None else round(x)


def _vfloat(x=0):
    if isinstance(x, Fx):
        return Fx('f', x.tof())
    return float(x)


def _vdiv(a, b):
    if isinstance(a, Fx) or isinstance(b, Fx):
        return Fx.lift(a) / Fx.lift(b)
    return a / b


def _vpow(a, b):
    if isinstance(a, Fx):
        return a ** b
    return a ** b


def _visinstance(o, t):
    return isinstance(o, t)


def _vgetitem(container, index):
    """container[index] with a symbolic index into a concrete list of ints: an if-then-else chain."""
    if isinstance(index, Fx) and isinstance(container, (list, tuple)):
        if index.k != 'i':
            index = index.toint()
        L = len(container)
        cur().side.append(z3.And(index.z >= -L, index.z < L))      # otherwise the real code raises IndexError
        expr = z3.BitVecVal(int(container[-1]), W)
        for i in range(-L, L - 1):
            expr = z3.If(index.z == i, z3.BitVecVal(int(container[i]), W), expr)
        return Fx('i', expr)
    return container[index]


def helpers():
    import math
    h = lift.identity_helpers()
    h.update({'__vf__': float, '__vdiv__': _vdiv, '__vpow__': _vpow, '__vint__': _vint, '__vfloat__': _vfloat, '__vround__': _vround,
              '__visinstance__': _visinstance, '__vgetitem__': _vgetitem, '__vmath__': math})
    return h


class Session:
    """Lifted import of prysm with the bit-precise helpers; prysm.mathops.np is switched to the bit-precise namespace."""

    def __enter__(self):
        lift.install(helpers(), lift_subscripts=True)
        import importlib
        mo = importlib.import_module('prysm.mathops')
        mo.np._srcmodule = _BitsNp()
        self.mathops = mo
        return self

    def __exit__(self, *a):
        lift.purge()
        lift.install(lift.identity_helpers())
        lift.uninstall()

    def mod(self, name):
        import importlib
        return importlib.import_module(name)
