"""symx.vhelpers -- the symbolic-mode helper set bound into lifted prysm modules, and session set-up."""
import math as _math
import builtins
import numbers
from fractions import Fraction

import numpy as _np

from . import core, lift, symnp, symspecial, symio
from .core import Sx, NotEncodable


def vf(s):
    f = Fraction(s)
    return int(f) if False else f     # keep float literals as Fractions ("float-like")


def vc(s):
    return Sx.const(0) + Sx({((), Fraction(1, 2), core.cur().K0): core.cur().k(Fraction(s))}, core.cur())


def _recip(b):
    b = symnp._ex(b)
    if isinstance(b, (Sx, symnp._NaN, core.Qx)):
        return 1 / b
    if b == 0:
        raise ZeroDivisionError('division by zero')
    f = 1 / Fraction(b)
    return int(f) if f.denominator == 1 else f


def _el_div(a, b):
    a = symnp._ex(a)
    b = symnp._ex(b)
    if isinstance(a, (Sx, symnp._NaN, core.Qx)) or isinstance(b, (Sx, symnp._NaN, core.Qx)):
        return a / b
    if isinstance(a, bool) or isinstance(b, bool):
        a, b = int(a), int(b)
    if b == 0:
        if a == 0:
            return symnp.NaN
        raise ZeroDivisionError('division by zero')
    f = Fraction(a) / Fraction(b)
    return f   # result of true division is float-like even when integral


def _el_div_np(a, b):
    """numpy semantics for array division: x/0 is inf (nan for 0/0), not an exception"""
    bz = symnp._ex(b)
    zero = bz.is_zero() if isinstance(bz, Sx) else (not isinstance(bz, (symnp._NaN, core.Qx)) and bz == 0)
    if zero:
        az = symnp._ex(a)
        if isinstance(az, symnp._NaN):
            return az
        azero = az.is_zero() if isinstance(az, Sx) else (not isinstance(az, core.Qx) and az == 0)
        return symnp.NaN if azero else symnp.INF
    return _el_div(a, b)


def vdiv(a, b):
    if isinstance(a, _np.ndarray) or isinstance(b, _np.ndarray):
        return symnp._map2(_el_div_np, a, b)
    if _is_plain(a) and _is_plain(b):
        return _el_div(a, b)
    return a / b     # objects with their own __truediv__ (RichData, Wavefront ...)


def _is_plain(v):
    return isinstance(v, (int, float, complex, Fraction, Sx, symnp._NaN, _np.number, core.Qx, core.AbsSx))


def _el_pow(a, b):
    a = symnp._ex(a)
    b = symnp._ex(b)
    if isinstance(b, Sx):
        f = b.as_fraction()
        if f is None:
            raise NotEncodable('symbolic exponent')
        b = int(f) if f.denominator == 1 else f
    if isinstance(a, symnp._NaN):
        return a
    if isinstance(a, core.AbsSx):
        return a ** b
    if isinstance(b, int):
        if isinstance(a, Sx):
            return a ** b
        if b >= 0:
            return a ** b
        return Fraction(a) ** b
    if isinstance(b, Fraction):
        if b.denominator == 1:
            return _el_pow(a, int(b))
        if b.denominator == 2:
            r = symnp._el_sqrt(a)
            return _el_pow(r, b.numerator)
        raise NotEncodable('fractional power %s' % b)
    raise NotEncodable('power with exponent of type %s' % type(b))


def vpow(a, b):
    if isinstance(a, _np.ndarray) or isinstance(b, _np.ndarray):
        return symnp._map2(_el_pow, a, b)
    if _is_plain(a) and _is_plain(b):
        return _el_pow(a, b)
    return a ** b


def vidiv(x, y):
    res = vdiv(x, y)
    if isinstance(x, _np.ndarray) and isinstance(res, _np.ndarray) and res.shape == x.shape and x.dtype == object:
        x[...] = res
        return x
    return res


def vipow(x, y):
    res = vpow(x, y)
    if isinstance(x, _np.ndarray) and isinstance(res, _np.ndarray) and res.shape == x.shape and x.dtype == object:
        x[...] = res
        return x
    return res


def _vint(x=0, *a):
    if isinstance(x, str) and symio.is_token(x):
        return _vint(symio.resolve_token(x))
    if isinstance(x, Sx):
        f = x.as_fraction()
        if f is not None:
            return int(f)
        return x.trunc()
    if isinstance(x, _np.ndarray) and x.dtype == object and x.size == 1:
        return _vint(x.reshape(-1)[0])
    return builtins.int(x, *a)


def _vfloat(x=0):
    if isinstance(x, Sx):
        return x
    if isinstance(x, Fraction):
        return x
    if isinstance(x, bool):
        return int(x)
    if isinstance(x, int):
        return Fraction(x)
    if isinstance(x, str):
        if symio.is_token(x):
            return _vfloat(symio.resolve_token(x))
        try:
            return Fraction(x)
        except ValueError:
            return builtins.float(x)
    if isinstance(x, _np.ndarray) and x.dtype == object and x.size == 1:
        return _vfloat(x.reshape(-1)[0])
    return symnp._ex(builtins.float(x))


def vround(x, n=None):
    if isinstance(x, Sx):
        return x.rint()
    return builtins.round(x, n) if n is not None else builtins.round(x)


def _vcomplex(re=0, im=0):
    return Sx.const(symnp._ex(re)) + vc('1') * Sx.const(symnp._ex(im))



class _VTypeMeta(type):
    def __instancecheck__(cls, o):
        return visinstance(o, cls._real)

    def __call__(cls, *a, **k):
        return cls._fn(*a, **k)


class vint(int, metaclass=_VTypeMeta):
    _real = int
    _fn = staticmethod(_vint)


class vfloat(float, metaclass=_VTypeMeta):
    _real = float
    _fn = staticmethod(_vfloat)


class vcomplex(complex, metaclass=_VTypeMeta):
    _real = complex
    _fn = staticmethod(_vcomplex)


def _unv(t):
    return getattr(t, '_real', t) if isinstance(t, _VTypeMeta) else t



def visinstance(o, t):
    ts = tuple(_unv(x) for x in (t if isinstance(t, tuple) else (t,)))
    t = ts
    if isinstance(o, Sx):
        for tt in ts:
            if tt is float or tt is numbers.Real:
                if o.is_real_syntactic():
                    return True
            elif tt in (complex, numbers.Number, numbers.Complex):
                return True
            elif tt is int:
                f = o.as_fraction()
                if f is not None and f.denominator == 1:
                    return True
        return builtins.isinstance(o, t)
    if isinstance(o, Fraction):
        for tt in ts:
            if tt is float:
                return True
        return builtins.isinstance(o, t)
    return builtins.isinstance(o, t)


class _VMath:
    """math module proxy: exact on int/Fraction, symbolic on Sx."""

    def __getattr__(self, name):
        return getattr(_math, name)

    @property
    def pi(self):
        return symnp.pi_value()

    @staticmethod
    def ceil(x):
        if isinstance(x, Sx):
            f = x.as_fraction()
            return _math.ceil(f) if f is not None else x.ceil()
        return _math.ceil(x)

    @staticmethod
    def floor(x):
        if isinstance(x, Sx):
            f = x.as_fraction()
            return _math.floor(f) if f is not None else x.floor()
        return _math.floor(x)

    @staticmethod
    def trunc(x):
        if isinstance(x, Sx):
            return _vint(x)
        return _math.trunc(x)

    @staticmethod
    def sqrt(x):
        return symnp._el_sqrt(x)

    @staticmethod
    def cos(x):
        return symnp._el_cos(x)

    @staticmethod
    def sin(x):
        return symnp._el_sin(x)

    @staticmethod
    def radians(x):
        return symnp.radians(x)

    @staticmethod
    def degrees(x):
        return symnp.degrees(x)

    @staticmethod
    def hypot(a, b):
        return symnp.hypot(a, b)


def symbolic_helpers():
    return {
        '__vf__': vf, '__vc__': vc, '__vdiv__': vdiv, '__vpow__': vpow, '__vidiv__': vidiv, '__vipow__': vipow,
        '__vint__': vint, '__vfloat__': vfloat, '__vround__': vround, '__vcomplex__': vcomplex,
        '__visinstance__': visinstance, '__vmath__': _VMath(), '__vtruenp__': symnp,
        '__vspecial__': symspecial, '__vgetitem__': __import__('operator').getitem, '__vopen__': symio.vopen, '__vPath__': symio.VPath,
    }


numbers.Number.register(Sx)


class Session:
    """A fresh lifted import of prysm with the symbolic backend, bound to one Ctx."""

    def __init__(self, ctx):
        self.ctx = ctx

    def __enter__(self):
        from . import symfft, symndimage
        self.ctx.__enter__()
        symnp.DTYPE_MODEL = False
        lift.install(symbolic_helpers())
        import importlib
        mo = importlib.import_module('prysm.mathops')
        mo.np._srcmodule = symnp
        mo.fft._srcmodule = symfft
        mo.ndimage._srcmodule = symndimage
        mo.special._srcmodule = symspecial
        self.mathops = mo
        return self

    def __exit__(self, *a):
        lift.purge()
        self.ctx.__exit__(*a)

    def mod(self, name):
        import importlib
        return importlib.import_module(name)
