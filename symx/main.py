"""CLI entry: python3-vt -m symx.main C07 --tier quick"""
import os
import sys
import argparse


def main():
    ap = argparse.ArgumentParser()
    ap.add_argument('prop', nargs='?')
    ap.add_argument('--tier', default=os.environ.get('VERIF_TIER', 'quick'))
    ap.add_argument('--only', default=None)
    ap.add_argument('--replay', default=None)
    ap.add_argument('--jobs', type=int, default=None)
    a = ap.parse_args()
    here = os.path.dirname(os.path.dirname(os.path.abspath(__file__)))
    sys.path.insert(0, here)
    from symx import runner
    if a.replay:
        sys.exit(runner.replay(a.replay))
    seed = int(os.environ.get('VERIF_SEED', '0') or 0)
    mod = __import__('props.' + a.prop, fromlist=['x'])
    if hasattr(mod, 'main'):
        sys.exit(mod.main(a.tier, seed, a.only))
    sys.exit(runner.main(a.prop, a.tier, seed, a.only, a.jobs))


if __name__ == '__main__':
    main()
