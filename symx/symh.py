"""symx.symh -- symbolic-mode harness handle (mirror of conc.ConcH)."""
from fractions import Fraction

import numpy as _np

from . import core, symnp, vhelpers
from .core import Sx, SymBool, NotEncodable


class Obligation:
    __slots__ = ('label', 'kind', 'lhs', 'rhs', 'note')

    def __init__(self, label, kind, lhs=None, rhs=None, note=''):
        self.label, self.kind, self.lhs, self.rhs, self.note = label, kind, lhs, rhs, note


class SymH:
    mode = 'symbolic'

    def __init__(self, ctx, session, cfg):
        self.ctx = ctx
        self.session = session
        self.cfg = cfg
        self.obligations = []
        self.np = symnp
        self.nan = symnp.NaN
        self.inf = symnp.INF
        self.assumptions = []
        self._content_cache = {}

    @property
    def pi(self):
        return self.ctx.param('pi')

    @property
    def j(self):
        return vhelpers.vc('1')

    # -- inputs -------------------------------------------------------------------------------
    def param(self, name, **info):
        return self.ctx.param(name)

    iparam = param

    def content(self, name, **info):
        c = self._content_cache.get(name)
        if c is None:
            if name in self.ctx.content_names:
                idx = self.ctx.content_names.index(name)
                c = Sx({(((idx, 1),), Fraction(0), self.ctx.K0): self.ctx.K1}, self.ctx)
            elif name in self.ctx.gens:
                c = self.ctx.param(name)
            else:
                c = self.ctx.content(name, **info)
            self._content_cache[name] = c
        return c

    def rarray(self, name, shape, **info):
        out = _np.empty(shape, dtype=object)
        for idx in _np.ndindex(*shape):
            out[idx] = self.content('%s_%s' % (name, '_'.join(map(str, idx))), **info)
        return out.view(symnp.SymArray)

    def carray(self, name, shape, **info):
        out = _np.empty(shape, dtype=object)
        j = self.j
        for idx in _np.ndindex(*shape):
            tag = '_'.join(map(str, idx))
            out[idx] = self.content('%sr_%s' % (name, tag)) + j * self.content('%si_%s' % (name, tag))
        out = out.view(symnp.SymArray)
        return out

    def angle(self, wname, full=False):
        """A first-quadrant angle in (0, pi/2) given by its half-angle tangent w in (0,1) (declared as a parameter):
        cos = (1-w^2)/(1+w^2), sin = 2w/(1+w^2); np.cos/np.sin of it are rational in w.
        full=True: w ranges over all reals, the angle 2 atan(w) over (-pi, pi) (every direction except pi)."""
        w = self.ctx.gens[wname]
        den = 1 + w * w
        a = core.new_angle(self.ctx, (1 - w * w) / den, 2 * w / den)
        if full:
            return a
        k = a.as_k()
        for n, kk in self.ctx.derived.items():
            pass
        name = [nm for nm, key in self.ctx.derived_def.items() if key[0] == 'angle' and self.ctx.gens[nm] == k][0]
        self.ctx.info[name]['first_quadrant'] = True
        return a

    def random_stub(self, mode):
        """'mean': noise sources return their mean; 'free': arbitrary values of the documented support (parameters pois_k, norm_k, uni_k)."""
        symnp.random.reset(mode)

    def memfile(self, suffix='.dat'):
        from . import symio
        return symio.MemFile()

    def truncate(self, f, nbytes):
        return f.truncated(nbytes)

    def filesize(self, f):
        return len(f.text) if f.text is not None else len(f.getvalue())

    def text_of(self, f):
        return f.text

    def text_number(self, tok):
        from . import vhelpers
        return vhelpers._vfloat(tok)

    def enable_dtype_model(self):
        """Integer-tagged arrays report their integer dtype; reductions honour dtype= (narrow accumulators wrap)."""
        symnp.DTYPE_MODEL = True

    def frac(self, a, b=1):
        return Fraction(a, b)    # always a Fraction: int/int in harness code must never become a float

    def const(self, v):
        return symnp._ex(v)

    def assume(self, cond, note=''):
        """Add a precondition (SymBool) for the rest of this run."""
        if isinstance(cond, SymBool):
            self.ctx.pre.append(cond)
        elif not cond:
            raise core.PathAbort('assumption is false')
        if note:
            self.assumptions.append(note)

    # -- math ---------------------------------------------------------------------------------
    def E(self, phase):
        if isinstance(phase, _np.ndarray):
            return symnp._map1(self.E, phase)
        p = symnp._sx(phase)
        k = p.as_k()
        if k is None:
            k = core.reduce_terms(p).as_k()
        if k is None:
            raise NotEncodable('oracle phase is not a field element')
        return Sx.phasor(k, self.ctx)

    def sqrt(self, x):
        return symnp.sqrt(x)

    def cos(self, x):
        return symnp.cos(x)

    def sin(self, x):
        return symnp.sin(x)

    def exp(self, x):
        return symnp.exp(x)

    def conj(self, x):
        return symnp.conj(x)

    def real(self, x):
        return symnp.real(x)

    def imag(self, x):
        return symnp.imag(x)

    def abs2(self, x):
        return symnp.real(x * symnp.conj(x))

    def floor(self, x):
        return symnp._el_floor(x)

    def ceil(self, x):
        return symnp._el_ceil(x)

    def zeros(self, shape, complex_=True):
        return symnp.zeros(shape)

    def asarray(self, x):
        return symnp.asarray(x)

    def is_nan(self, v):
        return isinstance(v, symnp._NaN)

    def diff(self, x, name):
        if isinstance(x, _np.ndarray):
            return symnp._map1(lambda v: self.diff(v, name), x)
        return core.sx_diff(symnp._sx(x), name)

    def mod(self, name):
        return self.session.mod(name)

    def linear_map(self, fn, shape, complex_=True, name='f'):
        """Kernel of a linear map: C[idx_in + idx_out] = coefficient of input sample idx_in in output sample idx_out.
        fn is run ONCE on a fully symbolic input; (complex-)linearity itself is recorded as an obligation."""
        f = self.carray(name, shape) if complex_ else self.rarray(name, shape)
        if complex_:
            f._declared_complex = True
        out = symnp.asarray(fn(f))
        oshape = out.shape
        C = _np.empty(tuple(shape) + tuple(oshape), dtype=object)
        zero = Sx.const(0, self.ctx)
        resid = _np.empty(oshape, dtype=object)
        lin_l, lin_r = [], []
        for oidx in _np.ndindex(*oshape):
            v = symnp._sx(out[oidx])
            rest = v
            for iidx in _np.ndindex(*shape):
                tag = '_'.join(map(str, iidx))
                an = ('%sr_%s' % (name, tag)) if complex_ else ('%s_%s' % (name, tag))
                co = poly_coeffs(v, an) if an in self.ctx.content_names else {}
                c1 = co.get(1, zero)
                C[iidx + oidx] = c1
                rest = rest - c1 * self.content(an)
                if complex_:
                    bn = '%si_%s' % (name, tag)
                    cb = poly_coeffs(v, bn).get(1, zero) if bn in self.ctx.content_names else zero
                    lin_l.append(cb)
                    lin_r.append(c1 * self.j)
                    rest = rest - cb * self.content(bn)
            resid[oidx] = rest
        self.eq('linear: no constant/higher-order part', resid.view(symnp.SymArray), 0 * resid)
        if complex_ and lin_l:
            self.eq('linear: complex-linear', symnp.asarray(lin_l), symnp.asarray(lin_r))
        return C.view(symnp.SymArray)

    # -- obligations --------------------------------------------------------------------------
    def eq(self, label, a, b, scale=None, rtol=None, tv2=True):
        a = symnp.asarray(a) if isinstance(a, (_np.ndarray, list, tuple)) else a
        b = symnp.asarray(b) if isinstance(b, (_np.ndarray, list, tuple)) else b
        sa, sb = _np.shape(a), _np.shape(b)
        if sa != sb:
            try:
                b = _np.broadcast_to(_np.asarray(b, dtype=object), sa)
            except ValueError:
                self.obligations.append(Obligation(label, 'shape', list(sa), list(sb), 'shape mismatch'))
                return
        if self.cfg.get('__twin__'):
            b = _twin_perturb(b)
        self.obligations.append(Obligation(label, 'eq', a, b, '' if tv2 else 'notv2'))

    def holds(self, label, cond, note=''):
        if self.cfg.get('__twin__'):
            cond = (~cond) if isinstance(cond, SymBool) else (not cond)
        self.obligations.append(Obligation(label, 'holds', cond, None, note))

    def le(self, label, a, b, note=''):
        self.holds(label, symnp._sx(a) <= symnp._sx(b), note)

    def shape_is(self, label, arr, shape):
        ok = tuple(_np.shape(arr)) == tuple(shape)
        self.obligations.append(Obligation(label, 'shape', list(_np.shape(arr)), list(shape), '' if ok else 'shape mismatch'))

    def value(self, label, v):
        self.obligations.append(Obligation(label, 'value', v, None))

    def expect_no_raise(self, label, fn):
        try:
            return fn()
        except NotEncodable:
            raise
        except Exception as e:   # noqa  (an exception of the analysed code)
            self.obligations.append(Obligation(label, 'raises', None, None, '%s: %s' % (type(e).__name__, e)))
            return None


def _twin_perturb(b):
    """Reachability twin: make the reference deliberately wrong (first element + 1)."""
    if isinstance(b, _np.ndarray):
        b = _np.array(b, dtype=object, copy=True, order='C')     # C order: reshape(-1) below must be a view
        flat = b.reshape(-1)
        for i in range(flat.size):
            if not isinstance(flat[i], symnp._NaN):
                flat[i] = flat[i] + 1
                break
        return b.view(symnp.SymArray)
    return b + 1


# ---------------------------------------------------------------------------------------------
# polynomial / phasor functionals used by orthogonality harnesses (symbolic side)
# ---------------------------------------------------------------------------------------------

def poly_coeffs(x, name):
    """Coefficients of the Sx x as a polynomial in the content atom `name`: dict degree -> Sx."""
    x = symnp._sx(x)
    ctx = x.ctx
    idx = ctx.content_names.index(name)
    out = {}
    for (m, r, p), c in x.t.items():
        d = dict(m)
        e = d.pop(idx, 0)
        key = (tuple(sorted(d.items())), r, p)
        tgt = out.setdefault(e, {})
        tgt[key] = tgt.get(key, ctx.K0) + c
    return {e: Sx({k: v for k, v in t.items() if v != 0}, ctx) for e, t in out.items()}


def moment_functional(x, name, moment):
    """Apply the linear functional  atom^k -> moment(k)  to the polynomial x."""
    tot = 0
    for e, c in poly_coeffs(x, name).items():
        tot = tot + c * moment(e)
    return tot


def angular_mean(x, pname):
    """Mean over a full period of the angle parameter `pname` (radians): keeps the terms whose symbolic phase
    does not involve pname; terms with phase k*pname/pi, k a non-zero integer, average to zero."""
    x = symnp._sx(x)
    ctx = x.ctx
    g = ctx.gens[pname]
    gi = ctx.gen_index[pname]
    out = {}
    for (m, r, p), c in x.t.items():
        if (c.numer.degree(gi) > 0) or (c.denom.degree(gi) > 0):
            raise NotEncodable('angular_mean: coefficient depends on the angle')
        if p == 0:
            out[(m, r, p)] = c
            continue
        q = p * ctx.kpi / g
        if q.numer.is_ground and q.denom.is_ground:
            f = core._q2f(q.numer.LC) / core._q2f(q.denom.LC)
            if f.denominator == 1 and f != 0:
                continue
            raise NotEncodable('angular_mean: non-integer harmonic %s' % f)
        if p.numer.degree(gi) <= 0 and p.denom.degree(gi) <= 0:
            out[(m, r, p)] = c
            continue
        raise NotEncodable('angular_mean: mixed phase')
    return Sx(out, ctx)
