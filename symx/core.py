"""symx.core -- exact symbolic scalar domain "R" (DESIGN.md section 2.3-R) and path exploration.

A scalar (class Sx) is a finite sum

      sum_k  c_k * mono_k(content atoms) * E(r_k + phi_k)        E(t) = exp(i*pi*t)

with c_k an element of the gcd-cancelling rational function field K = QQ(pi, params, derived)
(sympy sparse field), mono_k a monomial in the content atoms, r_k a rational constant in [0,1)
and phi_k a constant-free element of K (the symbolic phase in units of pi).

Only `Exception` subclasses are raised for problems in the analysed code; the engine's own
control flow uses BaseException subclasses (PathAbort).
"""
import math
import itertools
from fractions import Fraction
from functools import lru_cache

import numpy as truenp
from sympy.polys.fields import field as _sp_field, FracElement
from sympy.polys.domains import QQ, ZZ
from sympy.polys.specialpolys import cyclotomic_poly as _unused  # noqa: F401  (ensures sympy.polys is loaded)
from sympy import cyclotomic_poly, Symbol, Poly


class NotEncodable(Exception):
    """The analysed code used a construct the engine cannot represent exactly."""


class PathAbort(BaseException):
    """Engine control flow: abandon the current path (budget, infeasible)."""


# ---------------------------------------------------------------------------------------------
# context
# ---------------------------------------------------------------------------------------------

class Ctx:
    """One symbolic universe: the field K, the content atoms, constraints and the decision trail."""

    current = None

    def __init__(self, params=(), nderived=16, npool=0):
        # params : list of names or (name, dict(pos=True / nonneg=True / lo=.., hi=.. / integer=True))
        self.param_names = []
        self.info = {}
        for p in params:
            if isinstance(p, str):
                p = (p, {})
            self.param_names.append(p[0])
            self.info[p[0]] = dict(p[1])
        self.nderived = nderived
        self.derived_names = ['_d%d' % i for i in range(nderived)]
        names = ['pi'] + self.param_names + self.derived_names
        res = _sp_field(names, QQ)
        self.K = res[0]
        self.gens = dict(zip(names, res[1:]))
        self.gen_index = {n: i for i, n in enumerate(names)}
        self.K0 = self.K.zero
        self.K1 = self.K.one
        self.kpi = self.gens['pi']
        self.info['pi'] = {'pos': True, 'value': math.pi}
        # derived atoms
        self.derived = {}          # key -> name
        self.derived_def = {}      # name -> (kind, payload)
        self.next_derived = 0
        # content atoms
        self.content_names = []
        self.content_info = []
        # extra constraints (SymBool objects) asserted by the harness
        self.pre = []
        # path exploration state
        self.plan = []             # decisions to replay
        self.trail = []            # [(SymBool, value, forced)]
        self.solver = None         # set by smt module
        self.max_decisions = 4000
        self.nonzero_assumed = []  # denominators assumed nonzero (K elems)
        self._split_cache = {}
        self.stats = {'decisions': 0, 'feas_queries': 0}

    # -- activation -------------------------------------------------------------------------
    def __enter__(self):
        self._prev = Ctx.current
        Ctx.current = self
        return self

    def __exit__(self, *a):
        Ctx.current = self._prev

    # -- atoms ------------------------------------------------------------------------------
    def param(self, name):
        return Sx.from_k(self.gens[name], self)

    def content(self, name, **info):
        idx = len(self.content_names)
        self.content_names.append(name)
        self.content_info.append(info)
        return Sx({(((idx, 1),), _F0, self.K0): self.K1}, self)

    def new_derived(self, kind, payload, info):
        key = (kind, payload)
        if key in self.derived:
            return self.gens[self.derived[key]]
        if self.next_derived >= self.nderived:
            raise NotEncodable('derived-atom pool exhausted (%d)' % self.nderived)
        name = self.derived_names[self.next_derived]
        self.next_derived += 1
        self.derived[key] = name
        self.derived_def[name] = key
        self.info[name] = dict(info)
        return self.gens[name]

    # -- K helpers --------------------------------------------------------------------------
    def k(self, v):
        """Coerce a python number to K."""
        K = self.K
        if isinstance(v, FracElement):
            return v
        if isinstance(v, bool):
            return K(int(v))
        if isinstance(v, int):
            return K(v)
        if isinstance(v, Fraction):
            return K(QQ(v.numerator, v.denominator))
        if isinstance(v, (float, truenp.floating)):
            f = Fraction(float(v))
            return K(QQ(f.numerator, f.denominator))
        if isinstance(v, truenp.integer):
            return K(int(v))
        raise NotEncodable('cannot coerce %r to K' % (type(v),))

    def split_phase(self, p):
        """Split a K element into (rational constant, constant-free rest)."""
        c = self._split_cache.get(p)
        if c is not None:
            return c
        num, den = p.numer, p.denom
        const = _F0
        if num == 0:
            res = (_F0, self.K0)
        elif den.is_ground and num.is_ground:
            const = _q2f(num.LC) / _q2f(den.LC)
            res = (const, self.K0)
        else:
            dterms = den.terms()
            if len(dterms) == 1:
                dm, dc = dterms[0]
                cc = num.get(dm, None) if hasattr(num, 'get') else None
                if cc:
                    const = _q2f(cc) / _q2f(dc)
                    rest = p - self.k(const)
                    res = (const, rest)
                else:
                    res = (_F0, p)
            else:
                res = (_F0, p)
        self._split_cache[p] = res
        return res

    # -- sign knowledge ---------------------------------------------------------------------
    def gen_nonneg(self, name):
        i = self.info.get(name, {})
        if i.get('nonneg'):
            return True
        lo = i.get('lo')
        if lo is not None and lo >= 0:
            return True
        return self.gen_positive(name)

    def gen_positive(self, name):
        i = self.info.get(name, {})
        if i.get('pos'):
            return True
        lo = i.get('lo')
        if lo is not None and lo > 0:
            return True
        gt = i.get('gt')
        return gt is not None and gt >= 0

    # -- numeric evaluation -----------------------------------------------------------------
    def eval_k(self, kel, env):
        """Evaluate a K element at env: dict name -> float. Derived atoms are computed from their definitions."""
        try:
            return _eval_poly(kel.numer, self, env) / _eval_poly(kel.denom, self, env)
        except OverflowError:
            fe = {k: Fraction(v) for k, v in env.items() if isinstance(v, (int, float)) and v == v}
            return float(_eval_poly_exact(kel.numer, fe) / _eval_poly_exact(kel.denom, fe))

    def derived_value(self, name, env):
        kind, payload = self.derived_def[name]
        if kind == 'sqrt':
            v = self.eval_k(payload, env)
            return math.sqrt(v) if v >= 0 else float('nan')
        if kind == 'abs':
            return abs(self.eval_k(payload, env))
        if kind == 'floor':
            return math.floor(self.eval_k(payload, env))
        if kind == 'ceil':
            return math.ceil(self.eval_k(payload, env))
        if kind == 'trunc':
            return math.trunc(self.eval_k(payload, env))
        if kind == 'round':
            return float(truenp.round(self.eval_k(payload, env)))
        if kind == 'exp':
            return math.exp(self.eval_k(payload, env))
        if kind == 'log':
            return math.log(self.eval_k(payload, env))
        if kind == 'atan':
            return math.atan(self.eval_k(payload, env))
        if kind == 'atan2':
            y, x = payload
            return math.atan2(self.eval_k(y, env), self.eval_k(x, env))
        if kind == 'cosof':
            return math.cos(self.eval_k(payload, env))
        if kind == 'sinof':
            return math.sin(self.eval_k(payload, env))
        if kind == 'angle':
            c, sn = payload
            return math.atan2(self.eval_k(sn, env), self.eval_k(c, env))
        if kind == 'free':
            return env[name]
        raise NotEncodable('no numeric rule for derived atom kind %r' % kind)

    def full_env(self, env):
        """Extend env (params + contents by name) with pi and the derived atoms."""
        e = dict(env)
        e['pi'] = math.pi
        for name in self.derived_names[:self.next_derived]:
            if name not in e:
                try:
                    e[name] = self.derived_value(name, e)
                except (ZeroDivisionError, ValueError, OverflowError):
                    # the pool is shared by all paths: an atom of another path may be undefined at this path's witness
                    e[name] = float('nan')
        return e


_F0 = Fraction(0)
_F1 = Fraction(1)
_HALF = Fraction(1, 2)


def _q2f(q):
    return Fraction(int(q.numerator), int(q.denominator))


def _eval_poly(p, ctx, env):
    names = [str(g) for g in p.ring.symbols]
    tot = 0.0
    for mon, c in p.terms():
        v = float(int(c.numerator)) / float(int(c.denominator))
        for n, e in zip(names, mon):
            if e:
                v *= env[n] ** e
        tot += v
    return tot


def _eval_poly_exact(p, env):
    names = [str(g) for g in p.ring.symbols]
    tot = Fraction(0)
    for mon, c in p.terms():
        v = Fraction(int(c.numerator), int(c.denominator))
        for n, e in zip(names, mon):
            if e:
                v *= env[n] ** e
        tot += v
    return tot


def cur():
    c = Ctx.current
    if c is None:
        raise RuntimeError('no active symx context')
    return c


# ---------------------------------------------------------------------------------------------
# monomials in content atoms: tuple of (idx, exp) sorted by idx
# ---------------------------------------------------------------------------------------------

def _mono_mul(a, b):
    if not a:
        return b
    if not b:
        return a
    d = dict(a)
    for i, e in b:
        d[i] = d.get(i, 0) + e
    return tuple(sorted(d.items()))


# ---------------------------------------------------------------------------------------------
# the scalar
# ---------------------------------------------------------------------------------------------

class Sx:
    __slots__ = ('t', 'ctx', '_h', '_np')

    def __init__(self, terms, ctx, npflag=False):
        self.t = terms
        self.ctx = ctx
        self._h = None
        self._np = npflag      # True: behaves like a numpy scalar (has .shape/.ndim), as results of numpy calls do

    # numpy-scalar look-alike attributes: only values that came out of a numpy function (or arithmetic with one) have them,
    # exactly as python floats lack .shape/.ndim while numpy.float64 has them
    def _npattr(self, v):
        if not self._np:
            raise AttributeError('python-scalar-like symbolic value has no numpy attributes')
        return v

    shape = property(lambda self: self._npattr(()))
    ndim = property(lambda self: self._npattr(0))
    size = property(lambda self: self._npattr(1))
    dtype = property(lambda self: self._npattr(object))

    def as_np(self):
        if self._np:
            return self
        return Sx(self.t, self.ctx, True)

    # -- construction -----------------------------------------------------------------------
    @staticmethod
    def from_k(kel, ctx=None):
        ctx = ctx or cur()
        if kel == 0:
            return Sx({}, ctx)
        return Sx({((), _F0, ctx.K0): kel}, ctx)

    @staticmethod
    def const(v, ctx=None):
        ctx = ctx or cur()
        if isinstance(v, Sx):
            return v
        if isinstance(v, (complex, truenp.complexfloating)):
            v = complex(v)
            out = {}
            if v.real != 0:
                out[((), _F0, ctx.K0)] = ctx.k(v.real)
            if v.imag != 0:
                out[((), _HALF, ctx.K0)] = ctx.k(v.imag)
            return Sx(out, ctx)
        if isinstance(v, (truenp.bool_, bool)):
            v = int(v)
        kel = ctx.k(v)
        return Sx.from_k(kel, ctx)

    @staticmethod
    def phasor(phase_k, ctx=None):
        """E(phase) for a K element phase (units of pi)."""
        ctx = ctx or cur()
        const, rest = ctx.split_phase(phase_k)
        const = const % 2
        c = ctx.K1
        if const >= 1:
            const -= 1
            c = -c
        return Sx({((), const, rest): c}, ctx)

    # -- classification ---------------------------------------------------------------------
    def is_zero(self):
        if not self.t:
            return True
        return not reduce_terms(self).t

    def as_k(self):
        """Return the K element if this is a real, phasor-free, content-free value, else None."""
        if not self.t:
            return self.ctx.K0
        if len(self.t) == 1:
            (m, r, p), c = next(iter(self.t.items()))
            if not m and r == 0 and p == 0:
                return c
        return None

    def as_fraction(self):
        k = self.as_k()
        if k is None:
            return None
        if k.numer.is_ground and k.denom.is_ground:
            if k == 0:
                return _F0
            return _q2f(k.numer.LC) / _q2f(k.denom.LC)
        return None

    def is_real_syntactic(self):
        for (m, r, p) in self.t:
            if r != 0 or p != 0:
                return False
        return True

    def is_real(self):
        if self.is_real_syntactic():
            return True
        return (self - self.conjugate()).is_zero()

    # -- arithmetic -------------------------------------------------------------------------
    def _coerce(self, o):
        if isinstance(o, Sx):
            return o
        if isinstance(o, Qx):
            return None      # Sx (op) Qx is handled by Qx's reflected operators
        if isinstance(o, (int, Fraction, float, complex, truenp.number, truenp.bool_)):
            return Sx.const(o, self.ctx)
        return None

    def __add__(self, o):
        o = self._coerce(o)
        if o is None:
            return NotImplemented
        npf = self._np or o._np
        if not o.t:
            return self if self._np == npf else Sx(self.t, self.ctx, npf)
        if not self.t:
            return o if o._np == npf else Sx(o.t, o.ctx, npf)
        out = dict(self.t)
        for k, c in o.t.items():
            v = out.get(k)
            if v is None:
                out[k] = c
            else:
                v = v + c
                if v == 0:
                    del out[k]
                else:
                    out[k] = v
        return Sx(out, self.ctx, npf)

    __radd__ = __add__

    def __neg__(self):
        return Sx({k: -c for k, c in self.t.items()}, self.ctx, self._np)

    def __pos__(self):
        return self

    def __sub__(self, o):
        o = self._coerce(o)
        if o is None:
            return NotImplemented
        return self + (-o)

    def __rsub__(self, o):
        o = self._coerce(o)
        if o is None:
            return NotImplemented
        return o + (-self)

    def __mul__(self, o):
        o = self._coerce(o)
        if o is None:
            return NotImplemented
        a, b = self.t, o.t
        npf = self._np or o._np
        if not a or not b:
            return Sx({}, self.ctx, npf)
        ctx = self.ctx
        K0 = ctx.K0
        out = {}
        for (m1, r1, p1), c1 in a.items():
            for (m2, r2, p2), c2 in b.items():
                c = c1 * c2
                r = r1 + r2
                if p1 == 0:
                    p = p2
                elif p2 == 0:
                    p = p1
                else:
                    p = p1 + p2
                    if p != 0:
                        cc, p = ctx.split_phase(p)
                        if cc:
                            r += cc
                if r >= 1 or r < 0:
                    r = r % 2
                    if r >= 1:
                        r -= 1
                        c = -c
                key = (_mono_mul(m1, m2), r, p)
                v = out.get(key)
                if v is None:
                    out[key] = c
                else:
                    v = v + c
                    if v == 0:
                        del out[key]
                    else:
                        out[key] = v
        return Sx(out, ctx, npf)

    __rmul__ = __mul__

    def inverse(self):
        if len(self.t) == 1:
            (m, r, p), c = next(iter(self.t.items()))
            if not m:
                # 1/(c E(r+p)) = (1/c) E(-r-p)
                c2 = 1 / c
                r2 = (-r) % 2
                if r2 >= 1:
                    r2 -= 1
                    c2 = -c2
                self.ctx.nonzero_assumed.append(c)
                return Sx({((), r2, -p): c2}, self.ctx, self._np)
        # z real-valued content polynomial or general: try conj trick  1/z = conj(z)/(z conj z) if z*conj z is K-level
        red = reduce_terms(self)
        if red.t is not self.t and len(red.t) <= 1:
            if not red.t:
                raise ZeroDivisionError('symbolic division by zero')
            return red.inverse()
        zc = self.conjugate()
        n2 = reduce_terms(self * zc)
        k = n2.as_k()
        if k is not None and k != 0:
            self.ctx.nonzero_assumed.append(k)
            return zc * Sx.from_k(1 / k, self.ctx)
        return Qx(Sx.const(1, self.ctx), self)

    def __truediv__(self, o):
        o = self._coerce(o)
        if o is None:
            return NotImplemented
        if not o.t:
            raise ZeroDivisionError('symbolic division by exact zero')
        return self * o.inverse()

    def __rtruediv__(self, o):
        o = self._coerce(o)
        if o is None:
            return NotImplemented
        if not self.t:
            raise ZeroDivisionError('symbolic division by exact zero')
        return o * self.inverse()

    def __floordiv__(self, o):
        q = self / o
        return q.floor()

    def __mod__(self, o):
        o = self._coerce(o)
        if o is None:
            return NotImplemented
        return self - o * (self / o).floor()

    def __pow__(self, e):
        if isinstance(e, Sx):
            f = e.as_fraction()
            if f is None:
                raise NotEncodable('symbolic exponent')
            e = f
        if isinstance(e, (float, truenp.floating)):
            e = Fraction(float(e))
        if isinstance(e, truenp.integer):
            e = int(e)
        if isinstance(e, Fraction) and e.denominator == 1:
            e = int(e)
        if isinstance(e, int):
            if e == 0:
                return Sx.const(1, self.ctx)
            if e < 0:
                return self.inverse() ** (-e)
            res = None
            base = self
            while e:
                if e & 1:
                    res = base if res is None else res * base
                e >>= 1
                if e:
                    base = base * base
            return res
        if isinstance(e, Fraction) and e.denominator == 2:
            s = self.sqrt()
            return s ** e.numerator
        raise NotEncodable('power with exponent %r' % (e,))

    def __rpow__(self, b):
        f = self.as_fraction()
        if f is not None and f.denominator == 1:
            return Sx.const(b, self.ctx) ** int(f)
        # b ** x = exp(x log b)
        raise NotEncodable('symbolic exponent')

    # -- complex structure ------------------------------------------------------------------
    def conjugate(self):
        out = {}
        for (m, r, p), c in self.t.items():
            r2 = (-r) % 2
            c2 = c
            if r2 >= 1:
                r2 -= 1
                c2 = -c
            key = (m, r2, -p if p != 0 else p)
            v = out.get(key)
            if v is None:
                out[key] = c2
            else:
                v = v + c2
                if v == 0:
                    del out[key]
                else:
                    out[key] = v
        return Sx(out, self.ctx)

    conj = conjugate

    @property
    def real(self):
        if self.is_real_syntactic():
            return self
        return (self + self.conjugate()) * _HALF

    @property
    def imag(self):
        if self.is_real_syntactic():
            return Sx({}, self.ctx)
        d = self - self.conjugate()
        # divide by 2i  ==  multiply by E(-1/2)/2
        mi = Sx({((), _HALF, self.ctx.K0): self.ctx.k(Fraction(-1, 2))}, self.ctx)
        return d * mi

    def abs2(self):
        return self * self.conjugate()

    # -- transcendental ---------------------------------------------------------------------
    def exp(self):
        ctx = self.ctx
        if not self.t:
            return Sx.const(1, ctx)
        red = self
        phase = ctx.K0
        realpart = ctx.K0
        for (m, r, p), c in red.t.items():
            if m or p != 0:
                raise NotEncodable('exp of a non-scalar-field argument')
            if r == _HALF:
                phase = phase + c
            elif r == 0:
                realpart = realpart + c
            else:
                raise NotEncodable('exp of complex argument with irrational direction')
        cs = _angle_cos_sin(phase, ctx) if phase != 0 else None
        if cs is not None:
            out = Sx.from_k(cs[0], ctx) + Sx({((), _HALF, ctx.K0): cs[1]}, ctx) if cs[1] != 0 else Sx.from_k(cs[0], ctx)
        else:
            out = Sx.phasor(phase / ctx.kpi, ctx)
        if realpart != 0:
            out = out * real_exp(realpart, ctx)
        return out

    def cos(self):
        k = self.as_k()
        if k is None:
            raise NotEncodable('cos of non-field argument')
        cs = _angle_cos_sin(k, self.ctx)
        if cs is not None:
            return Sx.from_k(cs[0], self.ctx)
        if _mentions_angle(k, self.ctx):
            return Sx.from_k(self.ctx.new_derived('cosof', k, {'lo': -1, 'hi': 1}), self.ctx)
        ph = k / self.ctx.kpi
        return (Sx.phasor(ph, self.ctx) + Sx.phasor(-ph, self.ctx)) * _HALF

    def sin(self):
        k = self.as_k()
        if k is None:
            raise NotEncodable('sin of non-field argument')
        cs = _angle_cos_sin(k, self.ctx)
        if cs is not None:
            return Sx.from_k(cs[1], self.ctx)
        if _mentions_angle(k, self.ctx):
            return Sx.from_k(self.ctx.new_derived('sinof', k, {'lo': -1, 'hi': 1}), self.ctx)
        ph = k / self.ctx.kpi
        d = Sx.phasor(ph, self.ctx) - Sx.phasor(-ph, self.ctx)
        mi = Sx({((), _HALF, self.ctx.K0): self.ctx.k(Fraction(-1, 2))}, self.ctx)
        return d * mi

    def tan(self):
        return self.sin() / self.cos()

    def log(self):
        k = self.as_k()
        if k is None:
            k = reduce_terms(self).as_k()
        if k is None:
            raise NotEncodable('log of a non-field value')
        if k == 1:
            return Sx.const(0, self.ctx)
        return Sx.from_k(self.ctx.new_derived('log', k, {}), self.ctx)

    def arctan(self):
        k = self.as_k()
        if k is None:
            raise NotEncodable('arctan of a non-field value')
        if k == 0:
            return Sx.const(0, self.ctx)
        return Sx.from_k(self.ctx.new_derived('atan', k, {}), self.ctx)

    def sqrt(self):
        ctx = self.ctx
        if not self.t:
            return self
        k = self.as_k()
        if k is None:
            red = reduce_terms(self)
            k = red.as_k()
            if k is None:
                # single phasor term: sqrt(c E(x)) only if c>0: E(x/2) sqrt(c)
                raise NotEncodable('sqrt of a non-field value')
        return Sx.from_k(k_sqrt(k, ctx), ctx)

    def __abs__(self):
        ctx = self.ctx
        k = self.as_k()
        if k is not None:
            return Sx.from_k(k_abs(k, ctx), ctx)
        if len(self.t) == 1:
            (m, r, p), c = next(iter(self.t.items()))
            if not m:
                return Sx.from_k(k_abs(c, ctx), ctx)
        if any(m for (m, _, _) in self.t):
            return AbsSx(self)       # |z| of a content-dependent value: only its square is representable
        if self.is_real_syntactic():
            raise NotEncodable('abs of a content-dependent real value')
        n2 = reduce_terms(self.abs2())
        if n2.as_k() is None:
            kc = to_k_complex(n2)
            if kc is not None and kc[1] == 0:
                return Sx.from_k(k_sqrt(kc[0], ctx), ctx)
        return n2.sqrt()

    def floor(self):
        return _round_atom(self, 'floor')

    def ceil(self):
        return _round_atom(self, 'ceil')

    def trunc(self):
        return _round_atom(self, 'trunc')

    def rint(self):
        return _round_atom(self, 'round')

    def __floor__(self):
        return self.floor()

    def __ceil__(self):
        return self.ceil()

    def __trunc__(self):
        return self.trunc()

    def __round__(self, n=None):
        return self.rint()

    # -- conversion -------------------------------------------------------------------------
    def __int__(self):
        f = self.as_fraction()
        if f is None:
            f = reduce_terms(self).as_fraction()
        if f is None:
            raise NotEncodable('int() of a symbolic value')
        return int(f)

    def __index__(self):
        f = self.as_fraction()
        if f is None or f.denominator != 1:
            raise NotEncodable('symbolic value used as an index')
        return int(f)

    def __float__(self):
        f = self.as_fraction()
        if f is None:
            raise NotEncodable('float() of a symbolic value')
        return float(f)

    def __complex__(self):
        try:
            return complex(self.eval({}))
        except KeyError:
            raise NotEncodable('complex() of a symbolic value')

    # -- comparisons ------------------------------------------------------------------------
    def _cmp(self, o, op):
        o = self._coerce(o)
        if o is None:
            return NotImplemented
        d = self - o
        return SymBool.rel(d, op)

    def __eq__(self, o):
        if o is None or isinstance(o, str):
            return False
        r = self._cmp(o, '==')
        return r

    def __ne__(self, o):
        if o is None or isinstance(o, str):
            return True
        return self._cmp(o, '!=')

    def __lt__(self, o):
        return self._cmp(o, '<')

    def __le__(self, o):
        return self._cmp(o, '<=')

    def __gt__(self, o):
        return self._cmp(o, '>')

    def __ge__(self, o):
        return self._cmp(o, '>=')

    def __hash__(self):
        if self._h is None:
            f = self.as_fraction()
            if f is not None:
                self._h = hash(f)
            else:
                self._h = hash(frozenset(self.t.items()))
        return self._h

    def __bool__(self):
        r = SymBool.rel(self, '!=')
        return bool(r)

    # -- evaluation / printing --------------------------------------------------------------
    def eval(self, env):
        """Numeric value at env (names -> floats), env must already be ctx.full_env()."""
        ctx = self.ctx
        tot = 0j
        for (m, r, p), c in self.t.items():
            v = ctx.eval_k(c, env)
            for idx, e in m:
                v *= env[ctx.content_names[idx]] ** e
            ph = float(r)
            if p != 0:
                ph += ctx.eval_k(p, env)
            if ph != 0:
                v = v * complex(math.cos(math.pi * ph), math.sin(math.pi * ph))
            tot += v
        return tot

    def __format__(self, spec):
        # a number formatted into text is carried as a placeholder that parses back to the same value (symio text transport)
        if spec == '':
            from . import symio
            return symio.make_token(self)
        f = self.as_fraction()
        if f is not None:
            return format(float(f), spec)
        import re as _re
        mt = _re.fullmatch(r'\.(\d+)f', spec)
        if mt:
            # fixed-point formatting keeps N decimals: the text carries the value rounded to a multiple of 10^-N
            from . import symio
            sc = 10 ** int(mt.group(1))
            return symio.make_token((self * sc).rint() / sc)
        return repr(self)

    def __repr__(self):
        if not self.t:
            return '0'
        parts = []
        for (m, r, p), c in itertools.islice(self.t.items(), 6):
            s = '(%s)' % (c,)
            for idx, e in m:
                s += '*%s' % self.ctx.content_names[idx] + ('^%d' % e if e != 1 else '')
            if r != 0 or p != 0:
                s += '*E(%s%s)' % (r if r else '', ('+' + str(p)) if p != 0 else '')
            parts.append(s)
        if len(self.t) > 6:
            parts.append('...[%d terms]' % len(self.t))
        return ' + '.join(parts)

    # numpy ufunc method hooks (object arrays call these by name)
    def arctan2(self, x):
        return sx_arctan2(self, x)

    def diff(self, atom_name):
        return sx_diff(self, atom_name)


class AbsSx:
    """|z| for a content-dependent complex z.  Only |z|**2 (and |z|*|z|) can be expressed exactly; anything else is NotEncodable."""

    def __init__(self, z):
        self.z = z

    def __pow__(self, e):
        if isinstance(e, Sx):
            e = e.as_fraction()
        if e == 2:
            return self.z.abs2()
        if isinstance(e, int) and e % 2 == 0 and e > 0:
            return self.z.abs2() ** (e // 2)
        raise NotEncodable('odd power of the modulus of a content-dependent complex value')

    def __mul__(self, o):
        if isinstance(o, AbsSx) and o.z is self.z:
            return self.z.abs2()
        raise NotEncodable('modulus of a content-dependent complex value')

    def __getattr__(self, name):
        raise NotEncodable('modulus of a content-dependent complex value (%s)' % name)


# ---------------------------------------------------------------------------------------------
# K-level algebra helpers: sqrt / abs / rounding / exp atoms
# ---------------------------------------------------------------------------------------------

def _int_factors(n):
    from sympy.ntheory import factorint
    if n == 1:
        return {}
    r = math.isqrt(n)
    if r * r == n:
        return {r: 2}
    return factorint(n, limit=2 ** 16)


def _int_sqrt_split(n):
    """n>0 integer -> (s, t) with n = s^2 t, t squarefree as far as factors below 2^16 (and perfect squares) go."""
    s, t = 1, 1
    for p, e in _int_factors(n).items():
        if p > 2 ** 16:
            r = math.isqrt(p)
            if r * r == p:
                s *= r ** e
                continue
        s *= p ** (e // 2)
        if e % 2:
            t *= p
    return s, t


def _poly_known_positive(poly, ctx, nonneg_ok=True):
    """Conservative sign knowledge: every term has a positive coefficient and involves only non-negative
    generators (to any power) or even powers.  With nonneg_ok the result means 'known >= 0'."""
    terms = poly.terms()
    if not terms:
        return False
    names = [str(s) for s in poly.ring.symbols]
    strict = False
    for mon, c in terms:
        if c < 0:
            return False
        allpos = True
        for n, e in zip(names, mon):
            if e and not ctx.gen_positive(n):
                if e % 2 and not (nonneg_ok and ctx.gen_nonneg(n)):
                    return False
                allpos = False
        if allpos:
            strict = True
    return strict or nonneg_ok


def _factor_list(poly):
    """factor_list with a size guard: large multivariate polynomials are only split into content * primitive part."""
    if len(poly) > 24 and len(poly.ring.gens) > 3:
        c, prim = poly.primitive()
        return c, [(prim, 1)] if prim != 1 else []
    return poly.factor_list()


def k_sqrt(k, ctx):
    """Exact square root of a K element known (or assumed by the caller's domain) to be >= 0."""
    K = ctx.K
    k = _reduce_sqrt_k(k, ctx)
    if k == 0:
        return k
    num, den = k.numer, k.denom
    # sqrt(n/d) = sqrt(n*d)/d  (d>0 is not known: use |d|; we take d's factors individually)
    outside = K.one
    inside = K.one
    for poly, inv in ((num, False), (den, True)):
        coeff, facs = _factor_list(poly)
        cf = _q2f(coeff)
        # rational coefficient: may be negative -> keep sign inside
        sign = -1 if cf < 0 else 1
        cf = abs(cf)
        a, b = cf.numerator, cf.denominator
        # sqrt(a/b) = sqrt(a b)/b
        s, t = _int_sqrt_split(a * b)
        cout = Fraction(s, b)
        cin = t * sign
        if inv:
            # 1/sqrt(coeff) = 1/(cout sqrt(cin)) = sqrt(cin)/(cout*cin)
            outside = outside / ctx.k(cout * cin)
            inside = inside * ctx.k(cin)
        else:
            outside = outside * ctx.k(cout)
            inside = inside * ctx.k(cin)
        for f, mult in facs:
            fk = K.new(f, K.ring.one)
            half, odd = divmod(mult, 2)
            pos = _poly_known_positive(f, ctx)
            if half:
                if pos:
                    base = fk ** half
                else:
                    base = k_abs(fk, ctx) ** half
                outside = outside / base if inv else outside * base
            if odd:
                if inv:
                    # 1/sqrt(f) = sqrt(f)/f   (f>0 needed for the value to exist)
                    outside = outside / fk
                inside = inside * fk
    if inside == 1:
        return outside
    # split the radicand into independently-positive factors where possible
    res = outside
    coeff, facs = _factor_list(inside.numer)
    cf = _q2f(coeff) / _q2f(inside.denom.LC) if inside.denom.is_ground else None
    if cf is None:
        return res * _sqrt_atom(inside, ctx)
    pieces_pos = []
    rest = ctx.k(1)
    if cf > 0:
        # integer radicand (squarefree product of primes): one atom per prime
        n = cf.numerator * cf.denominator
        s, t = _int_sqrt_split(n)
        res = res * ctx.k(Fraction(s, cf.denominator))
        for p, e in _int_factors(t).items():
            for _ in range(e):
                pieces_pos.append(ctx.k(p))
    else:
        rest = rest * ctx.k(cf)
    for f, mult in facs:
        fk = K.new(f, K.ring.one)
        if _poly_known_positive(f, ctx):
            pieces_pos.append(fk)
        else:
            rest = rest * fk
    for pz in pieces_pos:
        res = res * _sqrt_atom(pz, ctx)
    if rest != 1:
        res = res * _sqrt_atom(rest, ctx)
    return res


def _sqrt_atom(radicand, ctx):
    return ctx.new_derived('sqrt', radicand, {'nonneg': True})


def k_abs(k, ctx):
    if k == 0:
        return k
    K = ctx.K
    res = K.one
    for poly, inv in ((k.numer, False), (k.denom, True)):
        coeff, facs = _factor_list(poly)
        cf = abs(_q2f(coeff))
        part = ctx.k(cf)
        for f, mult in facs:
            fk = K.new(f, K.ring.one)
            if mult % 2 == 0 or _poly_known_positive(f, ctx):
                part = part * fk ** mult
            elif _poly_known_positive(-f, ctx):
                part = part * (-fk) ** mult
            else:
                a = ctx.new_derived('abs', fk, {'nonneg': True})
                part = part * a ** mult
        res = res / part if inv else res * part
    return res


def _round_atom(x, kind):
    ctx = x.ctx
    f = x.as_fraction()
    if f is None:
        red = reduce_terms(x)
        f = red.as_fraction()
    if f is not None:
        if kind == 'floor':
            v = math.floor(f)
        elif kind == 'ceil':
            v = math.ceil(f)
        elif kind == 'trunc':
            v = math.trunc(f)
        else:
            v = round(f)  # banker's rounding, as numpy
        return Sx.const(v, ctx)
    k = x.as_k()
    if k is None:
        k = reduce_terms(x).as_k()
    if k is None:
        raise NotEncodable('%s of a content-dependent value' % kind)
    g = ctx.new_derived(kind, k, {'integer': True})
    return Sx.from_k(g, ctx)


def real_exp(k, ctx):
    """exp(k) for a real K element: atom per primitive argument, integer multiples become powers."""
    if k == 0:
        return Sx.const(1, ctx)
    # normalise: k = q * prim, with prim having leading numerator coefficient 1 -> exp(k) = atom(prim)^q when q integer
    lc = _q2f(k.numer.LC) / _q2f(k.denom.LC)
    prim = k / ctx.k(lc)
    q = lc
    if q.denominator != 1:
        prim = prim * ctx.k(Fraction(1, q.denominator))
        q = Fraction(q.numerator)
    g = ctx.new_derived('exp', prim, {'pos': True})
    return Sx.from_k(g ** int(q), ctx)


def _mentions_angle(k, ctx):
    """True if the K element involves an angle atom (but is not an integer multiple of one): its cos/sin are kept as
    opaque atoms in [-1,1] (an over-approximation: candidate counterexamples are confirmed by replay)."""
    for name in ctx.derived_names[:ctx.next_derived]:
        if ctx.derived_def[name][0] != 'angle':
            continue
        gi = ctx.gen_index[name]
        if (k.numer.degree(gi) if k.numer != 0 else 0) > 0 or k.denom.degree(gi) > 0:
            return True
    return False


def root_of_unity_k(r, ctx):
    """(cos(pi r), sin(pi r)) as K elements for rational r with 12 r integer (sqrt(2), sqrt(3) atoms), else None."""
    r = Fraction(r) % 2
    if (r * 12).denominator != 1:
        return None
    k = int(r * 12)            # angle = k * pi/12 = k * 15 degrees
    s2 = k_sqrt(ctx.k(2), ctx)
    s3 = k_sqrt(ctx.k(3), ctx)
    half = ctx.k(Fraction(1, 2))
    z8 = (s2 * half, s2 * half)            # E(pi/4)
    z12 = (s3 * half, half)                # E(pi/6)
    # E(pi/12) = E(pi/4) * conj(E(pi/6))
    base = (z8[0] * z12[0] + z8[1] * z12[1], z8[1] * z12[0] - z8[0] * z12[1])
    c, sn = ctx.K1, ctx.K0
    for _ in range(k):
        c, sn = c * base[0] - sn * base[1], c * base[1] + sn * base[0]
        c, sn = _reduce_sqrt_k(c, ctx), _reduce_sqrt_k(sn, ctx)
    return c, sn


def to_k_complex(x):
    """(re, im) as K elements for a content-free value whose phasors are roots of unity of order dividing 24, else None."""
    ctx = x.ctx
    re, im = ctx.K0, ctx.K0
    for (m, r, p), c in x.t.items():
        if m or p != 0:
            return None
        cs = root_of_unity_k(r, ctx)
        if cs is None:
            return None
        re = re + c * cs[0]
        im = im + c * cs[1]
    return _reduce_sqrt_k(re, ctx), _reduce_sqrt_k(im, ctx)


def _angle_cos_sin(k, ctx):
    """If k == m * (angle atom) for an integer m, return (cos, sin) of it as K elements, else None."""
    if not ctx.next_derived or k == 0:
        return None
    for name in ctx.derived_names[:ctx.next_derived]:
        kind, payload = ctx.derived_def[name]
        if kind != 'angle':
            continue
        gi = ctx.gen_index[name]
        if k.numer.degree(gi) != 1 or k.denom.degree(gi) > 0:
            continue
        quarter = 0
        q = k / ctx.gens[name]
        if not (q.numer.is_ground and q.denom.is_ground):
            # m * atom + j * pi/2: split off the part that does not contain the atom
            try:
                rest = k.numer.compose(ctx.K.ring.gens[gi], ctx.K.ring.zero)
                rest_k = ctx.K.new(rest, k.denom)
            except Exception:   # noqa
                continue
            lin = k - rest_k
            q = lin / ctx.gens[name]
            jq = rest_k / ctx.kpi * 2
            if not (q.numer.is_ground and q.denom.is_ground and jq.numer.is_ground and jq.denom.is_ground):
                continue
            jf = (_q2f(jq.numer.LC) if jq.numer != 0 else Fraction(0)) / _q2f(jq.denom.LC)
            if jf.denominator != 1:
                continue
            quarter = int(jf) % 4
        f = _q2f(q.numer.LC) / _q2f(q.denom.LC)
        if f.denominator != 1:
            continue
        m = int(f)
        c, s_ = payload
        # (c + i s)^|m| by repeated complex multiplication
        rc, rs = ctx.K1, ctx.K0
        for _ in range(abs(m)):
            rc, rs = rc * c - rs * s_, rc * s_ + rs * c
        rc = _reduce_sqrt_k(rc, ctx)
        rs = _reduce_sqrt_k(rs, ctx)
        if m < 0:
            rs = -rs
        # exact quarter turns
        for _ in range(quarter):
            rc, rs = -rs, rc
        return (rc, rs)
    return None


def new_angle(ctx, cos_k, sin_k):
    g = ctx.new_derived('angle', (cos_k, sin_k), {})
    return Sx.from_k(g, ctx)


def sx_arcsin(z):
    """Angle whose sine is z and whose cosine is +sqrt(1 - z^2) (principal branch, |z| <= 1 assumed by the caller)."""
    ctx = z.ctx
    k = z.as_k()
    if k is None:
        k = reduce_terms(z).as_k()
    if k is None:
        raise NotEncodable('arcsin of a non-field value')
    if k == 0:
        return Sx.const(0, ctx)
    # arcsin(sin(angle atom)) == the atom itself when it is a first-quadrant angle: recognise sin payloads
    for name in ctx.derived_names[:ctx.next_derived]:
        kind, payload = ctx.derived_def[name]
        if kind == 'angle' and payload[1] == k and ctx.info.get(name, {}).get('first_quadrant'):
            return Sx.from_k(ctx.gens[name], ctx)
    c = k_sqrt(ctx.K1 - k * k, ctx)
    return new_angle(ctx, c, k)


def sx_arctan2(y, x):
    ctx = y.ctx if isinstance(y, Sx) else x.ctx
    y = Sx.const(y, ctx)
    x = Sx.const(x, ctx)
    ky, kx = y.as_k(), x.as_k()
    if ky is None:
        kc = to_k_complex(y)
        ky = kc[0] if kc is not None and kc[1] == 0 else None
    if kx is None:
        kc = to_k_complex(x)
        kx = kc[0] if kc is not None and kc[1] == 0 else None
    if ky is None or kx is None:
        raise NotEncodable('arctan2 of content-dependent values')
    fy, fx = y.as_fraction(), x.as_fraction()
    if fy is not None and fx is not None:
        ang = math.atan2(fy, fx)
        # exact multiples of pi/4 only
        if fy == 0 and fx == 0:
            return Sx.const(0, ctx)
        for num in range(-4, 5):
            if abs(ang - num * math.pi / 4) < 1e-15:
                return Sx.from_k(ctx.kpi * ctx.k(Fraction(num, 4)), ctx)
        # any other concrete direction: an angle atom with exact (cos, sin)
    rho = k_sqrt(kx * kx + ky * ky, ctx)
    return new_angle(ctx, kx / rho, ky / rho)


# ---------------------------------------------------------------------------------------------
# canonical reduction (lazy): derived sqrt powers and cyclotomic relations
# ---------------------------------------------------------------------------------------------

def _reduce_sqrt_k(k, ctx):
    """Reduce powers of sqrt atoms: d^2 -> radicand, and rationalise denominators that contain d."""
    if not ctx.next_derived:
        return k
    changed = True
    guard = 0
    while changed and guard < 50:
        guard += 1
        changed = False
        for name in ctx.derived_names[:ctx.next_derived]:
            kind, payload = ctx.derived_def[name]
            if kind not in ('sqrt',):
                continue
            gi = ctx.gen_index[name]
            nd = k.numer.degree(gi) if k.numer != 0 else 0
            dd = k.denom.degree(gi)
            if nd < 2 and dd < 1:
                continue
            g = ctx.gens[name]
            num_e, num_o = _even_odd(k.numer, gi, payload, ctx)
            if dd >= 1:
                den_e, den_o = _even_odd(k.denom, gi, payload, ctx)
                # (ne + no d)/(de + do d) * (de - do d)/(de - do d)
                denom = den_e * den_e - den_o * den_o * payload
                ne = num_e * den_e - num_o * den_o * payload
                no = num_o * den_e - num_e * den_o
                k = (ne + no * g) / denom
            else:
                k = (num_e + num_o * g) / ctx.K.new(k.denom, ctx.K.ring.one)
            changed = True
    return k


def _even_odd(poly, gi, radicand, ctx):
    """poly(d) -> (E, O) with poly = E + O*d after d^2 := radicand; E, O are K elements free of d."""
    K = ctx.K
    ring = poly.ring
    E = K.zero
    O = K.zero
    # group terms by degree in gi
    buckets = {}
    for mon, c in poly.terms():
        e = mon[gi]
        m2 = mon[:gi] + (0,) + mon[gi + 1:]
        buckets.setdefault(e, {})[m2] = c
    for e, d in buckets.items():
        pk = K.new(ring.from_dict(d), ring.one)
        val = pk * radicand ** (e // 2)
        if e % 2:
            O = O + val
        else:
            E = E + val
    return E, O


@lru_cache(maxsize=None)
def _cyclo_coeffs(M):
    z = Symbol('z')
    p = Poly(cyclotomic_poly(M, z), z)
    return [int(c) for c in p.all_coeffs()][::-1]   # low -> high, monic


def _cyclo_reduce(coeffs, M, zero):
    """coeffs: dict exp->K (exp in [0,M)); returns list (len phi(M)) of K: remainder mod Phi_M."""
    phi = _cyclo_coeffs(M)
    deg = len(phi) - 1
    arr = [zero] * M
    for e, c in coeffs.items():
        arr[e % M] = arr[e % M] + c
    for top in range(M - 1, deg - 1, -1):
        c = arr[top]
        if c == 0:
            continue
        arr[top] = zero
        for j in range(deg):
            if phi[j]:
                arr[top - deg + j] = arr[top - deg + j] - c * phi[j]
    return arr[:deg]


def reduce_terms(x, M=None):
    """Canonical reduction of an Sx: sqrt powers, then cyclotomic reduction of the constant phases,
    grouped per (monomial, symbolic phase).  Returns a new Sx whose constant phases are k/(M/2)
    basis exponents with k < phi(M)."""
    ctx = x.ctx
    if not x.t:
        return x
    groups = {}
    for (m, r, p), c in x.t.items():
        c = _reduce_sqrt_k(c, ctx)
        if c == 0:
            continue
        groups.setdefault((m, p), []).append((r, c))
    out = {}
    for (m, p), lst in groups.items():
        if len(lst) == 1 and M is None:
            r, c = lst[0]
            out[(m, r, p)] = c
            continue
        D = 1
        for r, _ in lst:
            D = D * r.denominator // math.gcd(D, r.denominator)
        Mloc = 2 * D if M is None else M
        if Mloc % (2 * D):
            raise NotEncodable('cyclotomic order mismatch')
        co = {}
        for r, c in lst:
            e = int(r * (Mloc // 2))
            co[e] = co.get(e, ctx.K0) + c
        red = _cyclo_reduce(co, Mloc, ctx.K0)
        for e, c in enumerate(red):
            if c != 0:
                r = Fraction(2 * e, Mloc)
                # r may be >= 1 only if phi(M) > M/2, which never happens
                out[(m, r, p)] = c
    if len(out) == len(x.t) and all(k in x.t and x.t[k] == v for k, v in out.items()):
        return x
    return Sx(out, ctx)


def components(x, M):
    """dict key -> K element; x == 0 iff every component is 0 (for generic parameters)."""
    red = reduce_terms(x, M)
    return dict(red.t)


def common_M(*xs):
    D = 1
    for x in xs:
        for (m, r, p) in x.t:
            D = D * r.denominator // math.gcd(D, r.denominator)
    return 2 * D


# ---------------------------------------------------------------------------------------------
# differentiation
# ---------------------------------------------------------------------------------------------

def sx_diff(x, name):
    """d x / d atom; atom is a parameter name or content atom name.  Derived atoms that depend on the
    atom are differentiated through their definitions (sqrt, exp, log, atan)."""
    ctx = x.ctx
    out = Sx({}, ctx)
    if name in ctx.gens:
        g = ctx.gens[name]
        for (m, r, p), c in x.t.items():
            dc = _kdiff(c, name, ctx)
            if dc != 0:
                out = out + Sx({(m, r, p): dc}, ctx)
            if p != 0:
                dp = _kdiff(p, name, ctx)
                if dp != 0:
                    # d E(pi*(r+p)) = i*pi*dp * E
                    kk = (m, r, p)
                    term = Sx({kk: c}, ctx) * Sx({((), _HALF, ctx.K0): ctx.kpi * dp}, ctx)
                    out = out + term
        return out
    idx = ctx.content_names.index(name)
    for (m, r, p), c in x.t.items():
        d = dict(m)
        e = d.get(idx, 0)
        if not e:
            continue
        if e == 1:
            del d[idx]
        else:
            d[idx] = e - 1
        out = out + Sx({(tuple(sorted(d.items())), r, p): c * e}, ctx)
    return out


def _kdiff(k, name, ctx):
    g = ctx.gens[name]
    res = k.diff(g)
    # chain rule through derived atoms
    for dn in ctx.derived_names[:ctx.next_derived]:
        gi = ctx.gen_index[dn]
        if (k.numer.degree(gi) if k.numer != 0 else 0) <= 0 and k.denom.degree(gi) <= 0:
            continue
        kind, payload = ctx.derived_def[dn]
        dg = ctx.gens[dn]
        if kind == 'sqrt':
            inner = _kdiff(payload, name, ctx)
            if inner != 0:
                res = res + k.diff(dg) * inner / (2 * dg)
        elif kind == 'exp':
            inner = _kdiff(payload, name, ctx)
            if inner != 0:
                res = res + k.diff(dg) * inner * dg
        elif kind == 'log':
            inner = _kdiff(payload, name, ctx)
            if inner != 0:
                res = res + k.diff(dg) * inner / payload
        elif kind == 'atan':
            inner = _kdiff(payload, name, ctx)
            if inner != 0:
                res = res + k.diff(dg) * inner / (1 + payload * payload)
        elif kind == 'free':
            pass
        else:
            inner_dep = payload if not isinstance(payload, tuple) else payload[0]
            if _kdiff(inner_dep, name, ctx) != 0:
                raise NotEncodable('derivative through %s atom' % kind)
    return res


# ---------------------------------------------------------------------------------------------
# symbolic booleans and path exploration
# ---------------------------------------------------------------------------------------------

class SymBool:
    """A boolean over the atoms: relation (Sx op 0) or and/or/not combinations."""
    __slots__ = ('kind', 'a', 'b', 'op')

    def __init__(self, kind, a=None, b=None, op=None):
        self.kind, self.a, self.b, self.op = kind, a, b, op

    @staticmethod
    def rel(d, op):
        """d op 0.  Decides syntactically when possible and returns a python bool."""
        if not d.t:
            return op in ('==', '<=', '>=')
        f = d.as_fraction()
        if f is None and (d.ctx.next_derived or any(r != 0 for (_, r, _) in d.t)):
            d2 = reduce_terms(d)
            if not d2.t:
                return op in ('==', '<=', '>=')
            f = d2.as_fraction()
            d = d2
        if f is not None:
            return {'==': f == 0, '!=': f != 0, '<': f < 0, '<=': f <= 0, '>': f > 0, '>=': f >= 0}[op]
        sg = _constant_sign(d)
        if sg is not None:
            return {'==': sg == 0, '!=': sg != 0, '<': sg < 0, '<=': sg <= 0, '>': sg > 0, '>=': sg >= 0}[op]
        if op in ('<', '<=', '>', '>=') and not d.is_real_syntactic():
            if not d.is_real():
                raise NotEncodable('ordering comparison of complex symbolic values')
            d = reduce_terms(d.real)
        if op in ('==', '!=') and not d.is_real_syntactic():
            # complex (in)equality: nonzero if any generic component nonzero; as functions of free
            # phasors the value is zero only on a measure-zero set -> treat as the generic answer
            comps = components(d, common_M(d))
            if comps:
                # x == 0 cannot hold identically; symbolic decision on a complex value is not supported
                raise NotEncodable('equality test of a complex symbolic value')
        return SymBool('rel', d, None, op)

    def __and__(self, o):
        if isinstance(o, (bool, truenp.bool_)):
            return self if o else False
        return SymBool('and', self, o)

    __rand__ = __and__

    def __or__(self, o):
        if isinstance(o, (bool, truenp.bool_)):
            return True if o else self
        return SymBool('or', self, o)

    __ror__ = __or__

    def __invert__(self):
        return SymBool('not', self)

    def __bool__(self):
        return cur_decide(self)

    def __repr__(self):
        if self.kind == 'rel':
            return '(%r %s 0)' % (self.a, self.op)
        if self.kind == 'not':
            return '!%r' % (self.a,)
        return '(%r %s %r)' % (self.a, self.kind, self.b)

    def eval(self, env):
        if self.kind == 'rel':
            v = self.a.eval(env).real
            return {'==': v == 0, '!=': v != 0, '<': v < 0, '<=': v <= 0, '>': v > 0, '>=': v >= 0}[self.op]
        if self.kind == 'not':
            return not _beval(self.a, env)
        if self.kind == 'and':
            return _beval(self.a, env) and _beval(self.b, env)
        return _beval(self.a, env) or _beval(self.b, env)


def _constant_sign(d):
    """Sign of a field-level value of the form (monomial in positive parameters) * (expression in numeric constants and
    sqrt-of-number atoms only), decided numerically (exact data, double evaluation, generous margin); None if not of that form."""
    k = d.as_k()
    if k is None or k == 0:
        return None
    ctx = d.ctx
    names = [str(g) for g in k.numer.ring.symbols]
    const_atoms = set()
    for nm in ctx.derived_names[:ctx.next_derived]:
        kind, payload = ctx.derived_def[nm]
        if kind == 'sqrt' and payload.numer.is_ground and payload.denom.is_ground:
            const_atoms.add(nm)
    sign = 1
    vals = []
    for poly in (k.numer, k.denom):
        common = None
        for mon, c in poly.terms():
            part = tuple(e if names[i] not in const_atoms else 0 for i, e in enumerate(mon))
            if common is None:
                common = part
            elif part != common:
                return None
        for i, e in enumerate(common):
            if e and not ctx.gen_positive(names[i]):
                return None
        env = {}
        for nm in const_atoms:
            pl = ctx.derived_def[nm][1]
            env[nm] = math.sqrt(float(_q2f(pl.numer.LC) / _q2f(pl.denom.LC)))
        tot = 0.0
        mag = 0.0
        for mon, c in poly.terms():
            v = float(_q2f(c))
            for i, e in enumerate(mon):
                if e and names[i] in const_atoms:
                    v *= env[names[i]] ** e
            tot += v
            mag += abs(v)
        if abs(tot) <= 1e-9 * max(mag, 1e-300):
            return None
        vals.append(tot)
    return 1 if (vals[0] > 0) == (vals[1] > 0) else -1


def _beval(b, env):
    if isinstance(b, SymBool):
        return b.eval(env)
    return bool(b)


def cur_decide(sb):
    ctx = cur()
    return ctx.decider(sb) if getattr(ctx, 'decider', None) else _default_decide(ctx, sb)


def _default_decide(ctx, sb):
    from . import smt
    i = len(ctx.trail)
    if i >= ctx.max_decisions:
        raise PathAbort('decision budget exhausted')
    ctx.stats['decisions'] += 1
    if i < len(ctx.plan):
        val = ctx.plan[i]
        ctx.trail.append((sb, val, False))
        return val
    can_t = smt.feasible(ctx, sb, True)
    can_f = smt.feasible(ctx, sb, False)
    ctx.stats['feas_queries'] += 2
    if can_t and not can_f:
        ctx.trail.append((sb, True, True))
        ctx.plan.append(True)
        return True
    if can_f and not can_t:
        ctx.trail.append((sb, False, True))
        ctx.plan.append(False)
        return False
    if not can_t and not can_f:
        raise PathAbort('infeasible path')
    ctx.trail.append((sb, True, False))
    ctx.plan.append(True)
    return True


def explore(ctx, fn, max_paths=64):
    """Run fn() once per feasible path.  Yields (path_condition list[(SymBool, bool)], result or exception)."""
    plans = [[]]
    npaths = 0
    while plans:
        plan = plans.pop()
        if npaths >= max_paths:
            yield ('budget', None, None)
            return
        npaths += 1
        ctx.plan = list(plan)
        ctx.trail = []
        try:
            with ctx:
                res = fn()
            err = None
        except PathAbort as e:
            res, err = None, e
        except NotEncodable as e:
            res, err = None, e
        except Exception as e:   # an exception of the analysed code on this path
            res, err = None, e
        trail = list(ctx.trail)
        # schedule alternatives for open decisions taken beyond the given plan
        for j in range(len(plan), len(trail)):
            sb, val, forced = trail[j]
            if not forced:
                alt = [t[1] for t in trail[:j]] + [not val]
                plans.append(alt)
        yield ([(sb, val) for sb, val, _ in trail], res, err)


# ---------------------------------------------------------------------------------------------
# substitution of path-condition equalities (non-generic paths)
# ---------------------------------------------------------------------------------------------

def equalities_to_substitutions(ctx, pathcond):
    """From path-condition atoms of the form (linear-in-g == 0), derive substitutions g -> polynomial in the other
    generators.  On such a path the parameter g is not free any more, and distinct symbolic phasors may coincide; the
    obligation is therefore decided on the substituted terms."""
    subs = []
    eqs = []
    notlt, notgt = {}, {}
    for sb, val in pathcond:
        if not isinstance(sb, SymBool) or sb.kind != 'rel':
            continue
        if (sb.op == '==' and val) or (sb.op == '!=' and not val):
            k = sb.a.as_k()
            if k is not None:
                eqs.append(k)
            continue
        # not (e < 0) and not (e > 0)  (or e <= 0 and e >= 0)  is the equality e == 0
        k = sb.a.as_k()
        if k is None:
            continue
        if (sb.op == '<' and not val) or (sb.op == '>=' and val):
            notlt[k] = True
        elif (sb.op == '>' and not val) or (sb.op == '<=' and val):
            notgt[k] = True
        if k in notlt and k in notgt and k not in eqs:
            eqs.append(k)
    for k in eqs:
        for gname, val_poly in subs:
            k = _subs_k(k, ctx, gname, val_poly)
        p = k.numer
        ring = p.ring
        # a factor that is a generator known to be positive cannot vanish: drop it
        for name in ctx.param_names:
            if ctx.gen_positive(name):
                gi = ctx.gen_index[name]
                g = ring.gens[gi]
                while p != 0 and all(mon[gi] >= 1 for mon in p.monoms()):
                    p = p.quo(g)
        for name in ctx.param_names:
            gi = ctx.gen_index[name]
            if p.degree(gi) != 1:
                continue
            # p = c*g + rest with c ground
            c_terms = {}
            rest = {}
            ok = True
            for mon, co in p.terms():
                if mon[gi] == 1:
                    m2 = mon[:gi] + (0,) + mon[gi + 1:]
                    if any(m2):
                        ok = False
                        break
                    c_terms[m2] = co
                else:
                    rest[mon] = co
            if not ok or not c_terms:
                continue
            c = list(c_terms.values())[0]
            rest_poly = ring.from_dict(rest)
            val_poly = rest_poly * (-1 / c)
            subs.append((name, val_poly))
            break
    return subs


def _subs_k(k, ctx, gname, val_poly):
    gi = ctx.gen_index[gname]
    if (k.numer.degree(gi) if k.numer != 0 else 0) <= 0 and k.denom.degree(gi) <= 0:
        return k
    g = ctx.K.ring.gens[gi]
    n = k.numer.compose(g, val_poly)
    d = k.denom.compose(g, val_poly)
    if d == 0:
        raise NotEncodable('substitution makes a denominator vanish')
    return ctx.K.new(n, d)


def subs_sx(x, ctx, subs):
    if not subs or not isinstance(x, Sx) or not x.t:
        return x
    out = Sx({}, ctx)
    for (m, r, p), c in x.t.items():
        for gname, vp in subs:
            c = _subs_k(c, ctx, gname, vp)
            if p != 0:
                p = _subs_k(p, ctx, gname, vp)
        if c == 0:
            continue
        if p != 0:
            cc, p = ctx.split_phase(p)
            r = r + cc
        r = r % 2
        if r >= 1:
            r -= 1
            c = -c
        out = out + Sx({(m, r, p): c}, ctx)
    return out


# ---------------------------------------------------------------------------------------------
# quotients of general symbolic values (denominators that are phasor sums / content polynomials)
# ---------------------------------------------------------------------------------------------

class Qx:
    """num/den with num, den Sx; no normalisation.  Equality is decided by cross-multiplication."""
    __slots__ = ('num', 'den', 'ctx')

    def __init__(self, num, den):
        self.num, self.den, self.ctx = num, den, num.ctx

    @staticmethod
    def lift(v, ctx):
        if isinstance(v, Qx):
            return v
        if isinstance(v, Sx):
            return Qx(v, Sx.const(1, ctx))
        if isinstance(v, (int, Fraction, float, complex, truenp.number)):
            return Qx(Sx.const(v, ctx), Sx.const(1, ctx))
        return None

    def _bin(self, o, f):
        o = Qx.lift(o, self.ctx)
        if o is None:
            return NotImplemented
        return f(self, o)

    def __add__(self, o):
        return self._bin(o, lambda a, b: Qx(a.num * b.den + b.num * a.den, a.den * b.den) if a.den is not b.den else Qx(a.num + b.num, a.den))
    __radd__ = __add__

    def __sub__(self, o):
        return self._bin(o, lambda a, b: Qx(a.num * b.den - b.num * a.den, a.den * b.den) if a.den is not b.den else Qx(a.num - b.num, a.den))

    def __rsub__(self, o):
        return self._bin(o, lambda a, b: Qx(b.num * a.den - a.num * b.den, a.den * b.den))

    def __mul__(self, o):
        return self._bin(o, lambda a, b: Qx(a.num * b.num, a.den * b.den))
    __rmul__ = __mul__

    def __truediv__(self, o):
        return self._bin(o, lambda a, b: Qx(a.num * b.den, a.den * b.num))

    def __rtruediv__(self, o):
        return self._bin(o, lambda a, b: Qx(b.num * a.den, b.den * a.num))

    def __neg__(self):
        return Qx(-self.num, self.den)

    def __pos__(self):
        return self

    def __pow__(self, e):
        if isinstance(e, Sx):
            e = e.as_fraction()
        if isinstance(e, Fraction) and e.denominator == 1:
            e = int(e)
        if not isinstance(e, int):
            raise NotEncodable('non-integer power of a quotient')
        if e >= 0:
            return Qx(self.num ** e, self.den ** e)
        return Qx(self.den ** (-e), self.num ** (-e))

    def conjugate(self):
        return Qx(self.num.conjugate(), self.den.conjugate())
    conj = conjugate

    @property
    def real(self):
        return (self + self.conjugate()) * Fraction(1, 2)

    @property
    def imag(self):
        mi = Sx({((), _HALF, self.ctx.K0): self.ctx.k(Fraction(-1, 2))}, self.ctx)
        return (self - self.conjugate()) * mi

    def __abs__(self):
        raise NotEncodable('abs of a symbolic quotient (use abs2)')

    def abs2(self):
        return self * self.conjugate()

    def eval(self, env):
        return self.num.eval(env) / self.den.eval(env)

    def is_real_syntactic(self):
        return False

    def __repr__(self):
        return '[%r] / [%r]' % (self.num, self.den)

    def __hash__(self):
        return hash((self.num, self.den))

    def __eq__(self, o):
        o = Qx.lift(o, self.ctx)
        if o is None:
            return False
        return (self.num * o.den) == (o.num * self.den)

    def __ne__(self, o):
        r = self.__eq__(o)
        return (not r) if isinstance(r, bool) else ~r
