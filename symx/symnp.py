"""symx.symnp -- numpy-shaped backend namespace over exact object arrays (DESIGN.md section 2.2).

Arrays are numpy.ndarray subclasses of dtype=object whose elements are int / Fraction / Sx (/ NaN).
numpy itself supplies slicing, broadcasting, matmul, einsum ...; this module supplies what numpy cannot
do on objects.  Anything not defined here falls through to the real numpy (module __getattr__).
"""
import math
import builtins
from fractions import Fraction

import numpy as _np

from . import core
from .core import Sx, SymBool, NotEncodable, cur

newaxis = None
nan = float('nan')   # replaced below by the NaN singleton
inf = float('inf')   # replaced below by the INF element
e = None             # set lazily (np.e) -- not exact


class _NaN:
    """Absorbing not-a-number element."""
    _inst = None

    def __new__(cls):
        if cls._inst is None:
            cls._inst = object.__new__(cls)
        return cls._inst

    def _ab(self, *a):
        return self
    __add__ = __radd__ = __sub__ = __rsub__ = __mul__ = __rmul__ = __truediv__ = __rtruediv__ = _ab
    __pow__ = __rpow__ = __neg__ = __pos__ = __abs__ = __floordiv__ = __rfloordiv__ = __mod__ = __rmod__ = _ab
    sqrt = exp = cos = sin = conjugate = floor = ceil = trunc = rint = _ab
    real = property(lambda s: s)
    imag = property(lambda s: s)

    def _false(self, o):
        return False
    __lt__ = __le__ = __gt__ = __ge__ = __eq__ = _false

    def __ne__(self, o):
        return True

    def __hash__(self):
        return 0x7ff8

    def __repr__(self):
        return 'NaN'

    def __float__(self):
        return float('nan')

    def __bool__(self):
        return True


NaN = _NaN()
nan = NaN


class _Uninit(_NaN):
    """Content of np.empty() that was never written: behaves as NaN, but is reported as 'uninitialised'."""
    _inst = None

    def __repr__(self):
        return 'UNINIT'


UNINIT = _Uninit()


class _Inf(_NaN):
    """+/- infinity: not finite, not NaN; arithmetic on it is absorbing (any result is non-finite)."""
    _inst = None

    def __repr__(self):
        return 'INF'

    def __float__(self):
        return float('inf')


INF = _Inf()
inf = INF


DTYPE_MODEL = False     # opt-in (H.enable_dtype_model): integer-tagged arrays report their integer dtype and reductions honour dtype=


class SymArray(_np.ndarray):
    __array_priority__ = 100

    @property
    def dtype(self):
        t = getattr(self, '_int_dtype', None) if DTYPE_MODEL else None
        if t:
            return globals()[t]
        return _np.ndarray.dtype.__get__(self, type(self))

    def sum(self, axis=None, dtype=None, out=None, keepdims=False, **k):
        return sum(self, axis=axis, dtype=dtype, keepdims=keepdims)

    def __new__(cls, data):
        return _np.asarray(data, dtype=object).view(cls)

    def __array_finalize__(self, obj):
        # precision tag: which config.precision was in force when this array object came into being
        self._prec_tag = current_precision_name()
        self._int_dtype = getattr(obj, '_int_dtype', None) if obj is not None and getattr(obj, 'shape', None) is not None else None

    @property
    def real(self):
        return _map1(lambda v: v.real if isinstance(v, (Sx, _NaN)) else v, self)

    @real.setter
    def real(self, v):
        raise NotEncodable('assignment to .real')

    @property
    def imag(self):
        return _map1(lambda v: v.imag if isinstance(v, (Sx, _NaN)) else 0, self)

    @imag.setter
    def imag(self, v):
        raise NotEncodable('assignment to .imag')

    def conj(self):
        return _map1(_el_conj, self)

    conjugate = conj

    def astype(self, dtype, *a, **k):
        if k.get('copy') is False and not getattr(self, '_int_dtype', None):
            real = getattr(dtype, '_real', dtype)
            if (isinstance(dtype, _DType) and dtype.kind in 'fc') or real in (float, complex) or real is _np.float64 or real is _np.complex128:
                return self        # same floating type: numpy hands back the very same array (aliasing is observable)
        return astype(self, dtype)

    def tobytes(self, order='C'):
        from . import symio
        bits = {'int16': 16, 'uint16': 16, 'int32': 32, 'uint32': 32, 'int64': 64}.get(getattr(self, '_int_dtype', None), 32)
        src = self
        if order == 'F' or (order in ('A', 'K') and self.ndim >= 2 and self.flags.f_contiguous and not self.flags.c_contiguous):
            src = _np.asarray(self, dtype=object).T         # column-major byte order
        return symio.tobytes(src, bits)

    @property
    def nbytes(self):
        return self.size * 16

    def std(self, axis=None, **k):
        return std(self, axis=axis, **k)

    def var(self, axis=None, **k):
        return var(self, axis=axis, **k)

    def mean(self, axis=None, **k):
        return mean(self, axis=axis, **k)

    def max(self, axis=None, **k):
        return amax(self, axis=axis)

    def min(self, axis=None, **k):
        return amin(self, axis=axis)

    def argmax(self, axis=None, **k):
        return argmax(self, axis=axis)

    def argmin(self, axis=None, **k):
        return argmin(self, axis=axis)

    # comparisons stay lazy: an object array of (symbolic) booleans; nothing is decided until a mask is used
    def _cmp(self, other, op):
        res = _map2(op, self, other)
        if isinstance(res, _np.ndarray):
            flat = res.reshape(-1)
            if builtins.all(isinstance(v, (bool, _np.bool_)) for v in flat):
                return _np.asarray(res, dtype=bool)
        return res

    def __lt__(self, o):
        return self._cmp(o, lambda a, b: _ex(a) < _ex(b))

    def __le__(self, o):
        return self._cmp(o, lambda a, b: _ex(a) <= _ex(b))

    def __gt__(self, o):
        return self._cmp(o, lambda a, b: _ex(a) > _ex(b))

    def __ge__(self, o):
        return self._cmp(o, lambda a, b: _ex(a) >= _ex(b))

    def __eq__(self, o):
        if o is None or isinstance(o, str):
            return False
        return self._cmp(o, lambda a, b: _ex(a) == _ex(b))

    def __ne__(self, o):
        if o is None or isinstance(o, str):
            return True
        return self._cmp(o, lambda a, b: _ex(a) != _ex(b))

    __hash__ = None

    def __setitem__(self, key, value):
        if isinstance(value, _np.ndarray) and value.ndim == 0 and value.dtype == object:
            value = value[()]
        _np.ndarray.__setitem__(self, _fix_key(key), value)

    def __getitem__(self, key):
        return _np.ndarray.__getitem__(self, _fix_key(key))

    def __float__(self):
        if self.size != 1:
            raise TypeError('only size-1 arrays')
        return self.reshape(-1)[0]   # keep exact/symbolic

    def __array_wrap__(self, obj, context=None, return_scalar=False):
        if obj.dtype != object:
            return _np.asarray(obj)
        out = obj.view(SymArray)
        out._int_dtype = None      # the integer tag belongs to casts and their views, not to results of arithmetic on them
        return out


def current_precision_name():
    import sys
    conf = sys.modules.get('prysm.conf')
    if conf is None:
        return None
    try:
        return getattr(conf.config.precision, 'name', None)
    except Exception:   # noqa
        return None


def _fix_key(key):
    """Object-dtype boolean masks (results of symbolic comparisons) -> real bool masks (forks per element)."""
    if isinstance(key, _np.ndarray) and key.dtype == object:
        flat = key.reshape(-1)
        if flat.size and builtins.all(isinstance(v, (bool, _np.bool_, SymBool)) for v in flat):
            return _to_bool_array(key)
        # exact integers (np.arange, integer arithmetic on it) used as an index array
        ints = []
        for v in flat:
            if isinstance(v, Sx):
                v = v.as_fraction()
            if isinstance(v, bool) or not isinstance(v, (int, Fraction)) or (isinstance(v, Fraction) and v.denominator != 1):
                return key
            ints.append(int(v))
        return _np.asarray(ints, dtype=_np.intp).reshape(key.shape)
    if isinstance(key, tuple) and builtins.any(isinstance(k, _np.ndarray) and k.dtype == object for k in key):
        return tuple(_fix_key(k) for k in key)
    return key


# ---------------------------------------------------------------------------------------------
# exactness helpers
# ---------------------------------------------------------------------------------------------

def _ex(v):
    """Make a python/numpy scalar exact."""
    if isinstance(v, (Sx, Fraction, _NaN, SymBool, core.Qx, core.AbsSx)):
        return v
    if isinstance(v, (bool, _np.bool_)):
        return bool(v)
    if isinstance(v, (int, _np.integer)):
        return int(v)
    if isinstance(v, (float, _np.floating)):
        v = float(v)
        if v != v:
            return NaN
        if v in (float('inf'), float('-inf')):
            return INF
        f = Fraction(v)
        return int(f) if f.denominator == 1 else f
    if isinstance(v, (complex, _np.complexfloating)):
        return Sx.const(complex(v))
    return v


_exv = _np.frompyfunc(_ex, 1, 1)


def _wrap(a):
    if isinstance(a, _np.ndarray):
        if a.dtype == object:
            return a.view(SymArray) if not isinstance(a, SymArray) else a
        if a.dtype == bool:
            return a
        if a.dtype.kind in 'iu':
            return a.astype(object).view(SymArray)
        out = _exv(a)
        if isinstance(out, _np.ndarray):
            return out.view(SymArray)
        return out
    return a


def asarray(a, dtype=None, **k):
    if isinstance(a, SymArray):
        return a
    if isinstance(a, _np.ndarray):
        return _wrap(a)
    if isinstance(a, (Sx, Fraction, _NaN)):
        out = _np.empty((), dtype=object)
        out[()] = a
        return out.view(SymArray)
    if isinstance(a, (list, tuple)):
        arr = _np.empty(_shape_of(a), dtype=object)
        _fill(arr, a)
        return _wrap(_exv(arr))
    if isinstance(a, (int, float, complex, _np.number)):
        out = _np.empty((), dtype=object)
        out[()] = _ex(a)
        return out.view(SymArray)
    return _wrap(_np.asarray(a))


def _shape_of(a):
    if isinstance(a, (list, tuple)):
        if len(a) == 0:
            return (0,)
        return (len(a),) + _shape_of(a[0])
    if isinstance(a, _np.ndarray):
        return a.shape
    return ()


def _fill(arr, a):
    if arr.ndim == 0:
        arr[()] = a
        return
    for i, v in enumerate(a):
        if arr.ndim == 1:
            if isinstance(v, _np.ndarray) and v.ndim == 0:
                v = v[()]
            arr[i] = v
        else:
            _fill(arr[i], v)


def array(a, dtype=None, copy=True, **k):
    out = asarray(a)
    return out.copy() if copy else out


asanyarray = asarray


def ascontiguousarray(a, dtype=None):
    return asarray(a)


def copy(a):
    return asarray(a).copy()


def _map1(f, a):
    if isinstance(a, _np.ndarray):
        if a.ndim == 0:
            out = _np.empty((), dtype=object)
            out[()] = f(a[()])
            return out.view(SymArray)
        out = _np.empty(a.shape, dtype=object)
        flat = out.reshape(-1)
        src = a.reshape(-1)
        for i in range(src.size):
            flat[i] = f(src[i])
        return _layout_like(out, (a,)).view(SymArray)
    if isinstance(a, (list, tuple)):
        return _map1(f, asarray(a))
    return _npscalar(f(a))


def _npscalar(v):
    """Results of numpy functions on scalars are numpy scalars (they have .shape/.ndim)."""
    if isinstance(v, Sx):
        return v.as_np()
    if isinstance(v, (int, Fraction)) and not isinstance(v, bool):
        return Sx.const(v).as_np() if core.Ctx.current is not None else v
    return v


def _map2(f, a, b):
    if isinstance(a, (list, tuple)):
        a = asarray(a)
    if isinstance(b, (list, tuple)):
        b = asarray(b)
    if isinstance(a, _np.ndarray) or isinstance(b, _np.ndarray):
        aa, bb = _np.broadcast_arrays(_np.asarray(a, dtype=object), _np.asarray(b, dtype=object))
        out = _np.empty(aa.shape, dtype=object)
        fo, fa, fb = out.reshape(-1), aa.reshape(-1), bb.reshape(-1)
        for i in range(fo.size):
            fo[i] = f(fa[i], fb[i])
        return _layout_like(out, (a, b)).view(SymArray)
    return _npscalar(f(a, b))


def _f_like(x):
    """column-major memory layout (transposed views, asfortranarray, flips of those): axis 0 varies fastest"""
    if not isinstance(x, _np.ndarray) or x.ndim < 2 or x.flags.c_contiguous:
        return False
    st = [builtins.abs(v) for v in x.strides]
    return builtins.all(st[i] <= st[i + 1] for i in range(len(st) - 1)) and st[0] < st[-1]


def _layout_like(out, inputs):
    """numpy's elementwise results keep the memory layout of their array operands (order='K'): column-major operands give a column-major
    result.  Layout is invisible to indexing, but ravel(order='K'/'A') and tobytes(order='A') depend on it."""
    arrs = [x for x in inputs if isinstance(x, _np.ndarray) and x.ndim >= 2 and x.shape == out.shape]
    if arrs and builtins.all(_f_like(x) for x in arrs):
        return _np.asfortranarray(out)
    return out


def _sx(v):
    if isinstance(v, _np.ndarray) and v.size == 1:
        v = v.reshape(-1)[0]
    if isinstance(v, core.Qx):
        return v
    return v if isinstance(v, Sx) else Sx.const(_ex(v))


# ---------------------------------------------------------------------------------------------
# element functions
# ---------------------------------------------------------------------------------------------

def _el_conj(v):
    return v.conjugate() if isinstance(v, (Sx, _NaN, core.Qx)) else v


def _el_sqrt(v):
    v = _ex(v)
    if isinstance(v, (Sx, _NaN)):
        return v.sqrt()
    if v < 0:
        return NaN
    f = Fraction(v)
    rn, rd = math.isqrt(f.numerator), math.isqrt(f.denominator)
    if rn * rn == f.numerator and rd * rd == f.denominator:
        r = Fraction(rn, rd)
        return int(r) if r.denominator == 1 else r
    r = Sx.const(v).sqrt()
    return r


def _el_exp(v):
    v = _ex(v)
    if isinstance(v, (Sx, _NaN)):
        return v.exp()
    if v == 0:
        return 1
    return Sx.const(v).exp()


def _el_cos(v):
    v = _ex(v)
    if isinstance(v, (Sx, _NaN)):
        r = v.cos()
    elif v == 0:
        return 1
    else:
        r = Sx.const(v).cos()
    return _simplify_num(r)


def _el_sin(v):
    v = _ex(v)
    if isinstance(v, (Sx, _NaN)):
        r = v.sin()
    elif v == 0:
        return 0
    else:
        r = Sx.const(v).sin()
    return _simplify_num(r)


def _simplify_num(r):
    if isinstance(r, Sx):
        f = r.as_fraction()
        if f is None and builtins.all(p == 0 and not m for (m, _, p) in r.t):
            red = core.reduce_terms(r)
            f = red.as_fraction()
            if f is None:
                return red
        if f is not None:
            return int(f) if f.denominator == 1 else f
    return r


def _el_abs(v):
    v = _ex(v)
    if isinstance(v, (Sx, _NaN)):
        return builtins.abs(v)
    return builtins.abs(v)


def _el_floor(v):
    v = _ex(v)
    if isinstance(v, (Sx, _NaN)):
        return v.floor()
    return math.floor(v)


def _el_ceil(v):
    v = _ex(v)
    if isinstance(v, (Sx, _NaN)):
        return v.ceil()
    return math.ceil(v)


def _el_trunc(v):
    v = _ex(v)
    if isinstance(v, (Sx, _NaN)):
        return v.trunc()
    return math.trunc(v)


def _el_round(v):
    v = _ex(v)
    if isinstance(v, (Sx, _NaN)):
        return v.rint()
    return builtins.round(v)


def _el_real(v):
    return v.real if isinstance(v, (Sx, _NaN, core.Qx)) else v


def _el_imag(v):
    return v.imag if isinstance(v, (Sx, _NaN, core.Qx)) else 0


def _el_isnan(v):
    return isinstance(v, _NaN) and not isinstance(v, _Inf)


def _el_isfinite(v):
    return not isinstance(v, _NaN)


def _el_angle(v):
    v = _sx(v)
    return core.sx_arctan2(v.imag, v.real)


def sqrt(x):
    return _map1(_el_sqrt, x)


def exp(x):
    return _map1(_el_exp, x)


def cos(x):
    return _map1(_el_cos, x)


def sin(x):
    return _map1(_el_sin, x)


def tan(x):
    return _map1(lambda v: _el_sin(v) / _el_cos(v), x)


def conj(x):
    return _map1(_el_conj, x)


conjugate = conj


def absolute(x):
    return _map1(_el_abs, x)


abs = absolute


def floor(x):
    return _map1(_el_floor, x)


def ceil(x):
    return _map1(_el_ceil, x)


def trunc(x):
    return _map1(_el_trunc, x)


fix = trunc


def around(x, decimals=0):
    if decimals != 0:
        raise NotEncodable('around with decimals')
    return _map1(_el_round, x)


round = around
rint = around


def real(x):
    return _map1(_el_real, x)


def imag(x):
    return _map1(_el_imag, x)


def angle(x):
    return _map1(_el_angle, x)


def isnan(x):
    r = _map1(_el_isnan, x)
    return r.astype(bool) if isinstance(r, _np.ndarray) else r


def isfinite(x):
    r = _map1(_el_isfinite, x)
    return _np.asarray(r, dtype=bool) if isinstance(r, _np.ndarray) else r


def arctan2(y, x):
    return _map2(lambda a, b: core.sx_arctan2(_sx(a), _sx(b)), y, x)


def hypot(a, b):
    return _map2(lambda u, v: _el_sqrt(_ex(u) * _ex(u) + _ex(v) * _ex(v)), a, b)


def radians(x):
    r = asarray_or_scalar(x) * (pi_value() / 180)
    return _npscalar(r) if not isinstance(r, _np.ndarray) else r


deg2rad = radians


def degrees(x):
    r = asarray_or_scalar(x) * (180 / pi_value())
    return _npscalar(r) if not isinstance(r, _np.ndarray) else r


rad2deg = degrees


def asarray_or_scalar(x):
    if isinstance(x, (_np.ndarray, list, tuple)):
        return asarray(x)
    return _ex(x)


def pi_value():
    return cur().param('pi')


def iscomplexobj(x):
    if isinstance(x, _np.ndarray):
        if x.dtype != object:
            return _np.iscomplexobj(x)
        for v in x.reshape(-1):
            if isinstance(v, Sx) and not v.is_real_syntactic():
                return True
        # symbolic arrays carry a declared complexness tag when all-real syntactically
        return bool(getattr(x, '_declared_complex', False))
    if isinstance(x, Sx):
        return not x.is_real_syntactic()
    if isinstance(x, (type,)):
        return False
    if isinstance(x, _np.dtype):
        return False
    return isinstance(x, complex)


def isscalar(x):
    return isinstance(x, (Sx, Fraction, int, float, complex, _np.number))


# ---------------------------------------------------------------------------------------------
# constructors
# ---------------------------------------------------------------------------------------------

def _shape(s):
    if isinstance(s, (int, _np.integer)):
        return (int(s),)
    return tuple(int(v) for v in s)


def zeros(shape, dtype=None, **k):
    if dtype is not None and _is_bool_dtype(dtype):
        return _np.zeros(_shape(shape), dtype=bool)
    out = _np.empty(_shape(shape), dtype=object)
    out.fill(0)
    return out.view(SymArray)


def ones(shape, dtype=None, **k):
    if dtype is not None and _is_bool_dtype(dtype):
        return _np.ones(_shape(shape), dtype=bool)
    out = _np.empty(_shape(shape), dtype=object)
    out.fill(1)
    return out.view(SymArray)


def empty(shape, dtype=None, **k):
    if dtype is not None and _is_bool_dtype(dtype):
        return _np.zeros(_shape(shape), dtype=bool)
    out = _np.empty(_shape(shape), dtype=object)
    out.fill(UNINIT)
    return out.view(SymArray)


def full(shape, fill_value, dtype=None, **k):
    out = _np.empty(_shape(shape), dtype=object)
    out.fill(_ex(fill_value))
    return out.view(SymArray)


def _is_bool_dtype(dt):
    return dt is bool or dt is _np.bool_ or (isinstance(dt, str) and dt == 'bool') or (isinstance(dt, _np.dtype) and dt == bool)


def zeros_like(a, dtype=None, **k):
    return zeros(_np.shape(a), dtype)


def ones_like(a, dtype=None, **k):
    return ones(_np.shape(a), dtype)


def empty_like(a, dtype=None, **k):
    return empty(_np.shape(a), dtype)


def full_like(a, v, dtype=None, **k):
    return full(_np.shape(a), v)


def eye(n, m=None, dtype=None, **k):
    return _np.eye(n, m, dtype=int).astype(object).view(SymArray)


identity = eye


def arange(start, stop=None, step=None, dtype=None, **k):
    if stop is None:
        start, stop = 0, start
    if step is None:
        step = 1
    start, stop, step = _ex(start), _ex(stop), _ex(step)
    if isinstance(start, Sx) or isinstance(stop, Sx) or isinstance(step, Sx):
        n = (_sx(stop) - _sx(start)) / _sx(step)
        f = n.as_fraction()
        if f is None:
            raise NotEncodable('arange with symbolic length')
        n = math.ceil(f)
    else:
        n = builtins.max(0, math.ceil(Fraction(stop - start) / Fraction(step)))
    out = _np.empty(n, dtype=object)
    for i in range(n):
        out[i] = start + i * step
    return out.view(SymArray)


def linspace(start, stop, num=50, endpoint=True, retstep=False, dtype=None, **k):
    start, stop = _ex(start), _ex(stop)
    num = int(num)
    div = (num - 1) if endpoint else num
    out = _np.empty(num, dtype=object)
    if isinstance(start, (int, Fraction)) and isinstance(stop, (int, Fraction)):
        start, stop = Fraction(start), Fraction(stop)
    step = (stop - start) / div if div > 0 else 0
    for i in range(num):
        out[i] = start + i * step if div > 0 else start
    out = out.view(SymArray)
    if retstep:
        return out, step
    return out


def meshgrid(*xi, **k):
    xs = [_np.asarray(asarray(x), dtype=object) for x in xi]
    res = _np.meshgrid(*xs, **k)
    return [r.copy().view(SymArray) for r in res]


def outer(a, b):
    a = _np.asarray(asarray(a), dtype=object).reshape(-1)
    b = _np.asarray(asarray(b), dtype=object).reshape(-1)
    return _np.multiply.outer(a, b).view(SymArray)


def dot(a, b):
    return _wrap(_np.dot(asarray(a), asarray(b)))


def matmul(a, b):
    return _wrap(_np.matmul(asarray(a), asarray(b)))


def tensordot(a, b, axes=2):
    return _wrap(_np.tensordot(asarray(a), asarray(b), axes=axes))


def einsum(*a, **k):
    args = [asarray(x) if isinstance(x, (_np.ndarray, list)) else x for x in a]
    return _wrap(_np.einsum(*args, **k))


def kron(a, b):
    return _wrap(_np.kron(asarray(a), asarray(b)))


def pad(a, pad_width, mode='constant', **k):
    if 'constant_values' in k:
        k['constant_values'] = _ex(k['constant_values'])
    return _wrap(_np.pad(asarray(a), pad_width, mode=mode, **k))


def stack(arrs, axis=0, **k):
    return _wrap(_np.stack([asarray(a) for a in arrs], axis=axis))


def concatenate(arrs, axis=0, **k):
    return _wrap(_np.concatenate([asarray(a) for a in arrs], axis=axis))


def broadcast_to(a, shape, **k):
    return _wrap(_np.broadcast_to(asarray(a), shape))


def where(cond, *a):
    if not a:
        return _np.where(_to_bool_array(cond))
    x, y = a
    cond = _to_bool_array(cond)
    return _wrap(_np.where(cond, asarray(x), asarray(y)))


def _to_bool_array(c):
    if isinstance(c, _np.ndarray) and c.dtype == object:
        out = _np.empty(c.shape, dtype=bool)
        fo, fc = out.reshape(-1), c.reshape(-1)
        for i in range(fc.size):
            fo[i] = bool(fc[i])
        return out
    return c


# ---------------------------------------------------------------------------------------------
# reductions
# ---------------------------------------------------------------------------------------------

def sum(a, axis=None, dtype=None, **k):
    a = asarray(a)
    if _np.ndarray.dtype.__get__(a, type(a)) == bool:
        return _np.sum(a, axis=axis)
    tag = getattr(a, '_int_dtype', None)
    r = _np.add.reduce(_np.asarray(a, dtype=object), axis=axis, **{kk: v for kk, v in k.items() if kk in ('keepdims',) and v})
    r = _wrap(r) if isinstance(r, _np.ndarray) else r
    if DTYPE_MODEL and (isinstance(dtype, _DType) or tag):
        # accumulator type: the requested one, else numpy's default (integers narrower than the platform word are widened to it)
        acc = dtype if isinstance(dtype, _DType) else globals()[('uint64' if tag.startswith('u') else 'int64')]
        if acc.kind in 'iu':
            r = _map1(lambda v: _cast_int(v, acc), r) if isinstance(r, _np.ndarray) else _cast_int(r, acc)
            if isinstance(r, _np.ndarray):
                r._int_dtype = acc.name
    return r


def mean(a, axis=None, **k):
    a = asarray(a)
    if axis is None:
        n = a.size
    elif isinstance(axis, (tuple, list)):
        n = 1
        for ax in axis:
            n *= a.shape[ax]
        axis = tuple(axis)
    else:
        n = a.shape[axis]
    return sum(a, axis=axis, **k) * Fraction(1, n)


def var(a, axis=None, ddof=0, **k):
    a = asarray(a)
    if axis is not None:
        raise NotEncodable('var with axis')
    m = mean(a)
    d = a - m
    n = a.size
    return sum(_map1(lambda v: (v * _el_conj(v)), d)) * Fraction(1, n - ddof)


def std(a, axis=None, ddof=0, **k):
    return _el_sqrt(var(a, axis=axis, ddof=ddof))


def prod(a, axis=None, **k):
    r = _np.prod(_np.asarray(asarray(a), dtype=object), axis=axis)
    return _wrap(r) if isinstance(r, _np.ndarray) else r


def _cmp_reduce(a, axis, pick_gt):
    a = asarray(a)
    if axis is not None:
        return _wrap(_np.apply_along_axis(lambda v: _cmp_reduce(v, None, pick_gt), axis, a))
    flat = a.reshape(-1)
    best = flat[0]
    for v in flat[1:]:
        if isinstance(v, _NaN) or isinstance(best, _NaN):
            best = NaN
            continue
        c = (v > best) if pick_gt else (v < best)
        if c:
            best = v
    return best


def amax(a, axis=None, **k):
    return _cmp_reduce(a, axis, True)


def amin(a, axis=None, **k):
    return _cmp_reduce(a, axis, False)


max = amax
min = amin


def _drop_nan(a):
    flat = [v for v in asarray(a).reshape(-1) if not isinstance(v, _NaN)]
    if not flat:
        return None
    out = _np.empty(len(flat), dtype=object)
    for i, v in enumerate(flat):
        out[i] = v
    return out.view(SymArray)


def nanmin(a, axis=None, **k):
    if axis is not None:
        raise NotEncodable('nanmin with axis')
    b = _drop_nan(a)
    return NaN if b is None else _npscalar(_cmp_reduce(b, None, False))


def nanmax(a, axis=None, **k):
    if axis is not None:
        raise NotEncodable('nanmax with axis')
    b = _drop_nan(a)
    return NaN if b is None else _npscalar(_cmp_reduce(b, None, True))


def _arg_reduce(a, axis, pick_gt):
    a = asarray(a)
    if axis is not None:
        raise NotEncodable('argmax/argmin with axis')
    flat = a.reshape(-1)
    bi = 0
    for i in range(1, flat.size):
        c = (flat[i] > flat[bi]) if pick_gt else (flat[i] < flat[bi])
        if c:
            bi = i
    return bi


def argmax(a, axis=None, **k):
    return _arg_reduce(a, axis, True)


def argmin(a, axis=None, **k):
    return _arg_reduce(a, axis, False)


def maximum(a, b):
    return _map2(lambda u, v: u if (_ex(u) >= _ex(v)) else v, a, b)


def minimum(a, b):
    return _map2(lambda u, v: u if (_ex(u) <= _ex(v)) else v, a, b)


def clip(a, lo, hi, **k):
    def f(v):
        v = _ex(v)
        if lo is not None and v < _ex(lo):
            return _ex(lo)
        if hi is not None and v > _ex(hi):
            return _ex(hi)
        return v
    return _map1(f, a)


def any(a, axis=None, **k):
    return _np.any(_to_bool_array(_np.asarray(a)), axis=axis)


def all(a, axis=None, **k):
    return _np.all(_to_bool_array(_np.asarray(a)), axis=axis)


def allclose(a, b, **k):
    d = asarray(a) - asarray(b)
    for v in _np.asarray(d, dtype=object).reshape(-1):
        if isinstance(v, Sx):
            if not v.is_zero():
                return False
        elif v != 0:
            return False
    return True


def mod(a, b):
    return _map2(lambda u, v: _ex(u) % _ex(v), a, b)


def sign(a):
    def f(v):
        v = _ex(v)
        if v > 0:
            return 1
        if v < 0:
            return -1
        return 0
    return _map1(f, a)


# ---------------------------------------------------------------------------------------------
# dtype plumbing
# ---------------------------------------------------------------------------------------------

class _DType:
    """Stand-in for numpy scalar types: calling converts exactly, astype() is the identity for floats."""

    def __init__(self, name, kind, bits):
        self.name, self.kind, self.bits = name, kind, bits
        self.__name__ = name

    def __call__(self, v=0):
        v = _ex(v)
        if self.kind in 'iu':
            return _cast_int(v, self)
        return v

    def __repr__(self):
        return 'symnp.' + self.name

    def newbyteorder(self, *a):
        return self      # byte order is a property of the transport, which is lossless here

    def __eq__(self, o):
        if o is object:
            return True      # the storage of every symbolic array is an object array (engine-internal checks)
        return isinstance(o, _DType) and o.name == self.name

    def __ne__(self, o):
        return not self.__eq__(o)

    def __hash__(self):
        return hash(self.name)


float32 = _DType('float32', 'f', 32)
float64 = _DType('float64', 'f', 64)
complex64 = _DType('complex64', 'c', 64)
complex128 = _DType('complex128', 'c', 128)
int8 = _DType('int8', 'i', 8)
int16 = _DType('int16', 'i', 16)
int32 = _DType('int32', 'i', 32)
int64 = _DType('int64', 'i', 64)
uint8 = _DType('uint8', 'u', 8)
uint16 = _DType('uint16', 'u', 16)
uint32 = _DType('uint32', 'u', 32)
uint64 = _DType('uint64', 'u', 64)


def _cast_int(v, dt):
    """C semantics: truncate toward zero, then wrap modulo 2^bits."""
    v = _ex(v)
    if isinstance(v, _NaN):
        return UNINIT       # casting NaN to an integer is undefined: an arbitrary value
    t = v.trunc() if isinstance(v, Sx) else math.trunc(v)
    m = 1 << dt.bits
    if isinstance(t, Sx):
        w = t - (t / m).floor() * m
        if dt.kind == 'i':
            half = m >> 1
            w2 = (t + half)
            w = w2 - (w2 / m).floor() * m - half
        return w
    w = t % m
    if dt.kind == 'i' and w >= (m >> 1):
        w -= m
    return w


def astype(a, dtype):
    if isinstance(dtype, _DType):
        if dtype.kind in 'iu':
            if getattr(a, '_int_dtype', None) == dtype.name:
                return asarray(a).copy(order='K')          # already of this integer type (astype keeps the memory layout)
            res = _map1(lambda v: _cast_int(v, dtype), a)
            if isinstance(res, _np.ndarray):
                res._int_dtype = dtype.name
            return res
        if dtype.kind == 'f':
            return _map1(_el_real_strict, a)
        return asarray(a)
    dtype = getattr(dtype, '_real', dtype)
    if dtype in (float, complex, object, None) or dtype is _np.float64 or dtype is _np.float32 \
            or dtype is _np.complex128 or dtype is _np.complex64:
        return asarray(a)
    if dtype is int or (isinstance(dtype, type) and issubclass(dtype, _np.integer)):
        return _map1(_el_trunc, a)
    if _is_bool_dtype(dtype):
        return _to_bool_array(_np.asarray(a))
    if isinstance(dtype, _np.dtype):
        if dtype == object:
            return asarray(a)
        if dtype.kind in 'fc':
            return asarray(a)
        if dtype.kind in 'iu':
            return _map1(lambda v: _cast_int(v, _DType(dtype.name, dtype.kind, dtype.itemsize * 8)), a)
    raise NotEncodable('astype(%r)' % (dtype,))


def _el_real_strict(v):
    return v.real if isinstance(v, Sx) else v


class _FInfo:
    def __init__(self, dt):
        bits = getattr(dt, 'bits', 64)
        self.eps = Fraction(1, 2 ** 23) if bits == 32 else Fraction(1, 2 ** 52)
        self.tiny = Fraction(1, 2 ** 126)
        self.max = 2 ** 127


def finfo(dt):
    return _FInfo(dt)


def dtype(x):
    return x


# ---------------------------------------------------------------------------------------------
# linear algebra
# ---------------------------------------------------------------------------------------------

class _Linalg:
    @staticmethod
    def inv(a):
        a = asarray(a)
        if a.ndim > 2:
            out = _np.empty(a.shape, dtype=object)
            for idx in _np.ndindex(a.shape[:-2]):
                out[idx] = _Linalg.inv(a[idx])
            return out.view(SymArray)
        n = a.shape[0]
        M = [[_sx(a[i, j]) for j in range(n)] + [_sx(1 if i == j else 0) for j in range(n)] for i in range(n)]
        for c in range(n):
            piv = None
            for r in range(c, n):
                if not M[r][c].is_zero():
                    piv = r
                    break
            if piv is None:
                raise _np.linalg.LinAlgError('singular matrix')
            M[c], M[piv] = M[piv], M[c]
            inv = M[c][c].inverse()
            M[c] = [v * inv for v in M[c]]
            for r in range(n):
                if r != c and not M[r][c].is_zero():
                    f = M[r][c]
                    M[r] = [vr - f * vc for vr, vc in zip(M[r], M[c])]
        out = _np.empty((n, n), dtype=object)
        for i in range(n):
            for j in range(n):
                out[i, j] = _simplify_num(M[i][n + j])
        return out.view(SymArray)

    @staticmethod
    def lstsq(a, b, rcond=None):
        """Contract: the least-squares solution = solution of the normal equations (full column rank)."""
        a = asarray(a)
        b = asarray(b)
        at = _map1(_el_conj, a.T)
        G = matmul(at, a)
        rhs = matmul(at, b)
        Gi = _Linalg.inv(G)
        x = matmul(Gi, rhs)
        return x, None, a.shape[1], None

    @staticmethod
    def norm(a, *args, **k):
        a = asarray(a)
        return _el_sqrt(sum(_map1(lambda v: v * _el_conj(v), a)))

    LinAlgError = _np.linalg.LinAlgError


linalg = _Linalg()


class _Lib:
    class scimath:
        @staticmethod
        def arcsin(x):
            return _map1(lambda v: core.sx_arcsin(_sx(v)), x)


lib = _Lib()


class _Random:
    """Nondeterministic stubs for numpy.random: mode 'mean' returns the noise-free value (Poisson -> its mean, normal -> loc),
    mode 'free' returns fresh symbols of the documented support taken from the harness' parameter pool
    (pois_<k>: non-negative integers, norm_<k>: reals, uni_<k>: (0,1))."""
    mode = 'mean'
    counter = {'pois': 0, 'norm': 0, 'uni': 0}

    def reset(self, mode):
        self.mode = mode
        self.counter = {'pois': 0, 'norm': 0, 'uni': 0}

    def _fresh(self, kind):
        i = self.counter[kind]
        self.counter[kind] += 1
        name = '%s_%d' % (kind, i)
        ctx = cur()
        if name not in ctx.gens:
            raise NotEncodable('random stub needs parameter %s declared by the harness' % name)
        return ctx.param(name)

    def poisson(self, lam=1.0, size=None):
        lam = asarray(lam) if isinstance(lam, (_np.ndarray, list, tuple)) else _ex(lam)
        shape = _np.shape(lam) if size is None else _shape(size)
        out = _np.empty(shape, dtype=object)
        lamb = _np.broadcast_to(_np.asarray(lam, dtype=object), shape)
        for idx in _np.ndindex(*shape):
            out[idx] = lamb[idx] if self.mode == 'mean' else self._fresh('pois')
        return out.view(SymArray) if shape != () else out[()]

    def normal(self, loc=0.0, scale=1.0, size=None):
        shape = _np.shape(loc) if size is None else _shape(size)
        out = _np.empty(shape, dtype=object)
        locb = _np.broadcast_to(_np.asarray(asarray(loc) if isinstance(loc, (_np.ndarray, list, tuple)) else _ex(loc), dtype=object), shape)
        for idx in _np.ndindex(*shape):
            out[idx] = locb[idx] if self.mode == 'mean' else locb[idx] + self._fresh('norm')
        return out.view(SymArray) if shape != () else out[()]

    def rand(self, *shape):
        out = _np.empty(shape, dtype=object)
        for idx in _np.ndindex(*shape):
            out[idx] = self._fresh('uni')
        return out.view(SymArray) if shape != () else out[()]

    def uniform(self, low=0.0, high=1.0, size=None):
        shape = () if size is None else _shape(size)
        out = _np.empty(shape, dtype=object)
        for idx in _np.ndindex(*shape):
            out[idx] = _ex(low) + (_ex(high) - _ex(low)) * self._fresh('uni')
        return out.view(SymArray) if shape != () else out[()]

    def default_rng(self, *a, **k):
        return self


random = _Random()


def savetxt(fname, X, **k):
    from . import symio
    return symio.savetxt(fname, X, **k)


def fromstring(string, dtype=float, count=-1, sep=''):
    from . import symio
    return symio.fromstring(string, dtype, count, sep)


def frombuffer(buf, dtype=None, count=-1, offset=0):
    from . import symio
    return symio.frombuffer(buf, dtype, count, offset)


def hanning(M):
    M = int(M)
    if M == 1:
        return ones(1)
    out = _np.empty(M, dtype=object)
    p = pi_value()
    for n in range(M):
        out[n] = Fraction(1, 2) - _el_cos(2 * p * n * Fraction(1, M - 1)) * Fraction(1, 2)
    return out.view(SymArray)


def trapezoid(y, x=None, dx=1.0, axis=-1):
    y = asarray(y)
    y = _np.moveaxis(y, axis, -1)
    if x is None:
        d = _ex(dx)
        res = _np.sum((y[..., 1:] + y[..., :-1]) * d * Fraction(1, 2), axis=-1)
    else:
        x = asarray(x)
        d = x[1:] - x[:-1]
        res = _np.sum((y[..., 1:] + y[..., :-1]) * d * Fraction(1, 2), axis=-1)
    return _wrap(res) if isinstance(res, _np.ndarray) else res


def arcsin(x):
    return _map1(lambda v: core.sx_arcsin(_sx(v)), x)


def sinc(x):
    raise NotEncodable('sinc')


def log(x):
    return _map1(lambda v: _sx(v).log(), x)


def arctan(x):
    return _map1(lambda v: _sx(v).arctan(), x)


def __getattr__(name):
    if name == 'pi':
        return pi_value()
    if name in ('trapz',):
        raise AttributeError("module 'numpy' has no attribute 'trapz'")   # numpy>=2 configuration
    return getattr(_np, name)
