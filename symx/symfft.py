"""symx.symfft -- scipy.fft-shaped namespace: the DFT *by definition* on exact object arrays."""
from fractions import Fraction

import numpy as _np
import scipy.fft as _sfft

from . import symnp, core
from .core import Sx, NotEncodable


def _root(N, k, sign):
    """exp(sign*2*pi*i*k/N) as an exact phasor."""
    ctx = core.cur()
    return Sx.phasor(ctx.k(Fraction(sign * 2 * (k % N), N)), ctx)


def _dft_axis(a, n, axis, sign, scale):
    a = _np.asarray(symnp.asarray(a), dtype=object)
    a = _np.moveaxis(a, axis, -1)
    L = a.shape[-1]
    if n is None:
        n = L
    if n < L:
        a = a[..., :n]
    elif n > L:
        padw = [(0, 0)] * (a.ndim - 1) + [(0, n - L)]
        a = _np.pad(a, padw, mode='constant', constant_values=0)
    W = _np.empty((n, n), dtype=object)
    for j in range(n):
        for k in range(n):
            W[j, k] = _root(n, j * k, sign)
    out = _np.tensordot(a, W, axes=([-1], [0]))
    if scale is not None:
        out = out * scale
    out = _np.moveaxis(out, -1, axis)
    return out.view(symnp.SymArray)


def _scale(n, norm, inverse):
    if norm == 'ortho':
        r = symnp._el_sqrt(n)
        return (1 / r) if isinstance(r, Sx) else Fraction(1) / Fraction(r)
    if norm in (None, 'backward'):
        return Fraction(1, n) if inverse else None
    if norm == 'forward':
        return None if inverse else Fraction(1, n)
    raise NotEncodable('fft norm %r' % norm)


def fft(a, n=None, axis=-1, norm=None, **k):
    a = symnp.asarray(a)
    nn = n if n is not None else a.shape[axis]
    return _dft_axis(a, n, axis, -1, _scale(nn, norm, False))


def ifft(a, n=None, axis=-1, norm=None, **k):
    a = symnp.asarray(a)
    nn = n if n is not None else a.shape[axis]
    return _dft_axis(a, n, axis, +1, _scale(nn, norm, True))


def fft2(a, s=None, axes=(-2, -1), norm=None, **k):
    a = symnp.asarray(a)
    s = s or (None, None)
    out = fft(a, s[0], axes[0], norm)
    return fft(out, s[1], axes[1], norm)


def ifft2(a, s=None, axes=(-2, -1), norm=None, **k):
    a = symnp.asarray(a)
    s = s or (None, None)
    out = ifft(a, s[0], axes[0], norm)
    return ifft(out, s[1], axes[1], norm)


def rfft2(a, s=None, axes=(-2, -1), norm=None, **k):
    """real-input transform: the non-negative frequencies of the last axis (n//2 + 1 columns)"""
    if tuple(axes) != (-2, -1):
        raise NotEncodable('rfft2 over other axes')
    full = fft2(a, s, axes, norm)
    n = full.shape[-1]
    return full[..., : n // 2 + 1]


def irfft2(a, s=None, axes=(-2, -1), norm=None, **k):
    """inverse of rfft2: the last axis of the output has s[-1] samples, by numpy's default 2*(columns - 1); the missing half of the
    spectrum is the Hermitian mirror of the given half"""
    if tuple(axes) != (-2, -1):
        raise NotEncodable('irfft2 over other axes')
    a = symnp.asarray(a)
    if a.ndim != 2:
        raise NotEncodable('irfft2 of a non-2D array')
    m, kcols = a.shape
    mo = s[0] if s is not None else m
    n = s[1] if s is not None else 2 * (kcols - 1)
    if mo != m:
        raise NotEncodable('irfft2 with a different row count')
    import numpy as _np
    full = _np.empty((m, n), dtype=object)
    for i in range(m):
        for j in range(n):
            if j < kcols and j <= n // 2:
                full[i, j] = a[i, j]
            else:
                v = a[(-i) % m, n - j] if (n - j) < kcols else 0
                full[i, j] = v.conjugate() if hasattr(v, 'conjugate') else v
    out = ifft2(full.view(symnp.SymArray), None, axes, norm)
    return out.real


def fftshift(x, axes=None):
    return symnp._wrap(_np.fft.fftshift(_np.asarray(symnp.asarray(x), dtype=object), axes=axes))


def ifftshift(x, axes=None):
    return symnp._wrap(_np.fft.ifftshift(_np.asarray(symnp.asarray(x), dtype=object), axes=axes))


def fftfreq(n, d=1.0):
    n = int(n)
    d = symnp._ex(d)
    out = _np.empty(n, dtype=object)
    N = (n - 1) // 2 + 1
    for i in range(N):
        out[i] = i
    for i in range(N, n):
        out[i] = i - n
    out = out.view(symnp.SymArray)
    from .vhelpers import vdiv
    return vdiv(out, n * d)


def next_fast_len(n, *a, **k):
    return _sfft.next_fast_len(int(n), *a, **k)
