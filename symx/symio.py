"""symx.symio -- lossless in-memory transport for the file layer (DESIGN.md 2.9): what struct / bytes / text files carry is kept
as the exact (symbolic) integers that were written; nothing else about the formats is modelled."""
import builtins

import numpy as _np

from . import symnp
from .core import NotEncodable


# ---- text transport: a number formatted into text is a placeholder token that parses back to the same value -----------------
# (contract: repr/str of a float and '%d' of an integer round-trip exactly through float()/int(); digits are not modelled)
import re as _re
_TOKENS = {}
_TOKEN_RE = _re.compile(r'^@@sx(\d+)@@$')


def make_token(value):
    k = len(_TOKENS)
    _TOKENS[k] = value
    return '@@sx%d@@' % k


def is_token(s):
    return bool(_TOKEN_RE.match(s.strip()))


def resolve_token(s):
    return _TOKENS[int(_TOKEN_RE.match(s.strip()).group(1))]


def render_number(v, integer=False):
    from .core import Sx
    v = symnp._ex(v)
    if isinstance(v, Sx):
        f = v.as_fraction()
        if f is None:
            return make_token(v)
        v = f
    if integer:
        if v != int(v):
            raise NotEncodable('%d of a non-integer')
        return str(int(v))
    return make_token(v) if not isinstance(v, int) else str(v)


class VPath:
    """pathlib.Path stand-in: in-memory files are read from the transport, everything else goes to the real Path."""

    def __new__(cls, file, *a):
        if isinstance(file, MemFile):
            return object.__new__(cls)
        import pathlib
        return pathlib.Path(file, *a)

    def __init__(self, file, *a):
        self.file = file

    def expanduser(self):
        return self

    def read_text(self, *a, **k):
        if self.file.text is None:
            raise NotEncodable('read_text of a binary in-memory file')
        return self.file.text

    def read_bytes(self):
        return self.file.getvalue()


def savetxt(fname, X, fmt='%.18e', delimiter=' ', newline='\n', header='', footer='', comments='# '):
    if not isinstance(fname, MemFile):
        raise NotEncodable('savetxt to a real file')
    if fmt != '%d':
        raise NotEncodable('savetxt with fmt %r' % (fmt,))
    X = _np.asarray(X, dtype=object)
    if X.ndim == 1:
        X = X.reshape(-1, 1)
    out = []
    if header:
        out.append(comments + header.replace('\n', '\n' + comments))
    for row in X:
        out.append(delimiter.join(render_number(v, integer=True) if not _is_sym(v) else make_token(v) for v in row))
    fname.text = newline.join(out) + newline


def _is_sym(v):
    from .core import Sx
    return isinstance(v, Sx) and v.as_fraction() is None


def fromstring(string, dtype=float, count=-1, sep=''):
    if sep == '':
        raise NotEncodable('binary fromstring')
    toks = string.replace(sep, ' ').split() if sep.strip() else string.split()
    vals = []
    for t in toks:
        if is_token(t):
            vals.append(symnp._ex(resolve_token(t)))
        else:
            try:
                vals.append(int(t))
            except ValueError:
                from fractions import Fraction
                try:
                    vals.append(Fraction(t))
                except ValueError:
                    break        # numpy stops at the first unparsable token (deprecated behaviour)
    if not vals:
        return symnp.zeros(0)
    out = _np.empty(len(vals), dtype=object)
    for i, v in enumerate(vals):
        out[i] = v
    return out.view(symnp.SymArray)


class SymBytes(bytes):
    """A byte string whose [start, start+4n) region stands for n big-endian int32 values kept symbolically (payload).
    The real bytes in that region are zeros and must not be interpreted."""

    def __new__(cls, raw, payload=None):
        obj = bytes.__new__(cls, raw)
        obj.payload = payload or []     # list of (byte offset, list of elements, itemsize)
        return obj

    def __getitem__(self, key):
        if isinstance(key, slice):
            start, stop, step = key.indices(len(self))
            if step != 1:
                raise NotEncodable('strided slicing of a symbolic byte string')
            raw = bytes.__getitem__(self, key)
            pl = []
            for off, elems, isz in self.payload:
                new = []
                first = None
                for i, e in enumerate(elems):
                    a, b = off + i * isz, off + (i + 1) * isz
                    if b <= start or a >= stop:
                        continue
                    if first is None:
                        first = a
                    new.append(e if (a >= start and b <= stop) else symnp.UNINIT)   # a partially cut element is garbage
                if new:
                    # elements keep their alignment relative to the original offset
                    pl.append((max(first, start) - start if first >= start else first - start, new, isz))
            return SymBytes(raw, pl)
        return bytes.__getitem__(self, key)

    def __add__(self, other):
        raw = bytes.__add__(self, other)
        pl = list(self.payload)
        if isinstance(other, SymBytes):
            pl += [(off + len(self), el, isz) for off, el, isz in other.payload]
        return SymBytes(raw, pl)

    def __radd__(self, other):
        raw = bytes.__add__(bytes(other), bytes(self))
        return SymBytes(raw, [(off + len(other), el, isz) for off, el, isz in self.payload])


class MemFile:
    """File object handed to a writer; read back with open(memfile, 'rb')."""

    def __init__(self):
        self.chunks = []
        self.closed = False
        self.text = None        # text files (savetxt / read_text): a str with placeholder tokens

    def write(self, b):
        if isinstance(b, SymBytes):
            self.chunks.append(b)
        else:
            self.chunks.append(SymBytes(bytes(b)))
        return len(b)

    def close(self):
        self.closed = True

    def getvalue(self):
        out = SymBytes(b'')
        for c in self.chunks:
            out = out + c
        return out

    def truncated(self, nbytes):
        t = MemFile()
        if self.text is not None:
            t.text = self.text[:nbytes]
            return t
        t.chunks = [self.getvalue()[:nbytes]]
        return t

    # reader side
    def __enter__(self):
        return self

    def __exit__(self, *a):
        return False

    def read(self):
        return self.getvalue()

    def __str__(self):
        return 'memfile.dat'

    def endswith(self, s):
        return str(self).endswith(s)


def vopen(file, mode='r', *a, **k):
    if isinstance(file, MemFile):
        return file
    return builtins.open(file, mode, *a, **k)


def tobytes(arr, dtype_bits=32):
    flat = list(_np.asarray(arr, dtype=object).reshape(-1))
    isz = dtype_bits // 8
    return SymBytes(bytes(len(flat) * isz), [(0, flat, isz)])


def frombuffer(buf, dtype=None, count=-1, offset=0):
    bits = getattr(dtype, 'bits', None)
    isz = (bits // 8) if bits else _np.dtype(dtype).itemsize
    avail = (len(buf) - offset) // isz
    if count == -1:
        count = avail
    if count > avail:
        raise ValueError('buffer is smaller than requested size')
    if count == 0:
        return symnp.zeros(0)
    out = _np.empty(count, dtype=object)
    out.fill(None)
    if isinstance(buf, SymBytes):
        for off, elems, pisz in buf.payload:
            if pisz != isz:
                continue
            for i, e in enumerate(elems):
                pos = off + i * pisz - offset
                if pos % isz == 0 and 0 <= pos // isz < count:
                    out[pos // isz] = e
    raw = bytes(buf)
    for i in range(count):
        if out[i] is None:
            chunk = raw[offset + i * isz: offset + (i + 1) * isz]
            kind = getattr(dtype, 'kind', 'i')
            out[i] = int.from_bytes(chunk, 'big', signed=(kind == 'i'))
    return out.view(symnp.SymArray)
