"""symx.smt -- rendering of obligations to z3 (and SMT-LIB2 text) and solver calls."""
import time
import math
from fractions import Fraction

import os
import z3

from .core import (Sx, SymBool, Ctx, NotEncodable, components, common_M, reduce_terms, _q2f)

STATS = {'queries': 0, 'solver_time_s': 0.0, 'unsat': 0, 'sat': 0, 'unknown': 0}


class Z3Env:
    """z3 constants for the atoms of a Ctx plus their defining constraints."""

    def __init__(self, ctx):
        self.ctx = ctx
        self.vars = {}
        self.ints = {}
        self.defs_done = set()
        self.side = []       # defining constraints already emitted (z3 BoolRefs)
        self.uphasors = {}   # symbolic phase K -> (c, s) unit circle pair (only for raw rendering)

    def var(self, name):
        v = self.vars.get(name)
        if v is None:
            info = self.ctx.info.get(name) or {}
            if info.get('integer'):
                # integer-valued atoms (floor/ceil/trunc/round results, integer parameters) are genuine Int constants
                iv = z3.Int(name)
                self.ints[name] = iv
                v = z3.ToReal(iv)
            else:
                v = z3.Real(name)
            self.vars[name] = v
            self._constrain(name, v)
        return v

    def _constrain(self, name, v):
        ctx = self.ctx
        info = ctx.info.get(name)
        if info is None and name in ctx.content_names:
            info = ctx.content_info[ctx.content_names.index(name)]
        info = info or {}
        if name == 'pi':
            self.side.append(v > z3.RealVal('3.14159265358979'))
            self.side.append(v < z3.RealVal('3.14159265358980'))
            return
        if info.get('pos'):
            self.side.append(v > 0)
        if info.get('nonneg'):
            self.side.append(v >= 0)
        if info.get('lo') is not None:
            self.side.append(v >= _rv(info['lo']))
        if info.get('hi') is not None:
            self.side.append(v <= _rv(info['hi']))
        if info.get('gt') is not None:
            self.side.append(v > _rv(info['gt']))
        if info.get('lt') is not None:
            self.side.append(v < _rv(info['lt']))
        if info.get('integer') and name not in self.ints:
            self.side.append(z3.IsInt(v))
        if name in ctx.derived_def:
            kind, payload = ctx.derived_def[name]
            if kind == 'sqrt':
                rad = self.k(payload)
                self.side.append(v >= 0)
                self.side.append(v * v == rad)
            elif kind == 'abs':
                x = self.k(payload)
                self.side.append(v >= 0)
                self.side.append(z3.Or(v == x, v == -x))
            elif kind == 'floor':
                x = self.k(payload)
                self.side.append(z3.And(v <= x, x < v + 1))
            elif kind == 'ceil':
                x = self.k(payload)
                self.side.append(z3.And(x <= v, v < x + 1))
            elif kind == 'trunc':
                x = self.k(payload)
                self.side.append(z3.If(x >= 0, z3.And(v <= x, x < v + 1), z3.And(x <= v, v < x + 1)))
            elif kind == 'round':
                x = self.k(payload)
                half = z3.RealVal('1/2')
                # round half to even
                self.side.append(z3.And(v - half <= x, x <= v + half))
                self.side.append(z3.Implies(z3.Or(x == v - half, x == v + half), z3.IsInt(v / 2)))
            elif kind == 'exp':
                self.side.append(v > 0)
            elif kind in ('log', 'atan', 'atan2', 'free'):
                pass

    def poly(self, p):
        names = [str(s) for s in p.ring.symbols]
        terms = []
        for mon, c in p.terms():
            f = _q2f(c)
            t = [z3.RealVal(str(f))] if f != 1 or not any(mon) else []
            for n, e in zip(names, mon):
                if e:
                    v = self.var(n)
                    t.extend([v] * e) if e <= 3 else t.append(v ** e)
            if not t:
                t = [z3.RealVal(1)]
            prod = t[0]
            for x in t[1:]:
                prod = prod * x
            terms.append(prod)
        if not terms:
            return z3.RealVal(0)
        if len(terms) == 1:
            return terms[0]
        return z3.Sum(terms)

    def k(self, kel):
        n = self.poly(kel.numer)
        if kel.denom.is_ground:
            d = _q2f(kel.denom.LC)
            if d == 1:
                return n
            return n / z3.RealVal(str(d))
        return n / self.poly(kel.denom)

    def sx_real(self, x):
        """Render a phasor-free Sx (real polynomial in contents with K coefficients)."""
        ctx = self.ctx
        terms = []
        for (m, r, p), c in x.t.items():
            if r != 0 or p != 0:
                raise NotEncodable('sx_real on a complex/phasor value')
            t = self.k(c)
            for idx, e in m:
                v = self.var(ctx.content_names[idx])
                for _ in range(e):
                    t = t * v
            terms.append(t)
        if not terms:
            return z3.RealVal(0)
        return z3.Sum(terms) if len(terms) > 1 else terms[0]

    def boolean(self, b):
        if isinstance(b, bool):
            return z3.BoolVal(b)
        if not isinstance(b, SymBool):
            return z3.BoolVal(bool(b))
        if b.kind == 'rel':
            e = self.sx_real(b.a)
            z = z3.RealVal(0)
            return {'==': e == z, '!=': e != z, '<': e < z, '<=': e <= z, '>': e > z, '>=': e >= z}[b.op]
        if b.kind == 'not':
            return z3.Not(self.boolean(b.a))
        if b.kind == 'and':
            return z3.And(self.boolean(b.a), self.boolean(b.b))
        return z3.Or(self.boolean(b.a), self.boolean(b.b))

    def all_side(self):
        # constraining a variable may create further variables; iterate to a fixpoint
        return list(self.side)


def _rv(v):
    if isinstance(v, Fraction):
        return z3.RealVal(str(v))
    if isinstance(v, int):
        return z3.RealVal(v)
    return z3.RealVal(str(Fraction(v).limit_denominator(10 ** 12)))


def _new_solver(timeout_s):
    s = z3.Solver()
    s.set('timeout', int(timeout_s * 1000))
    return s


def _run(s):
    t0 = time.time()
    r = s.check()
    dt = time.time() - t0
    STATS['queries'] += 1
    STATS['solver_time_s'] += dt
    STATS[str(r)] = STATS.get(str(r), 0) + 1
    return str(r), dt


def path_and_pre(ctx, env):
    out = []
    for b in ctx.pre:
        out.append(env.boolean(b))
    for sb, val, _f in ctx.trail:
        zb = env.boolean(sb)
        out.append(zb if val else z3.Not(zb))
    return out


def feasible(ctx, sb, val, timeout_s=20):
    env = Z3Env(ctx)
    s = _new_solver(timeout_s)
    zb = env.boolean(sb)
    cons = path_and_pre(ctx, env)
    s.add(*cons)
    s.add(zb if val else z3.Not(zb))
    s.add(*env.all_side())
    r, _ = _run(s)
    if r == 'unsat':
        return False
    return True   # sat or unknown: keep the path (unknown paths are explored, never pruned)


def model_env(ctx, env, model):
    out = {}
    for name, v in env.vars.items():
        if name in ctx.derived_def or name == 'pi':
            continue
        mv = model.eval(env.ints.get(name, v), model_completion=True)
        out[name] = _z3num(mv)
    return out


def _z3num(mv):
    try:
        if z3.is_int_value(mv):
            return float(mv.as_long())
        if z3.is_rational_value(mv):
            return float(Fraction(mv.numerator_as_long(), mv.denominator_as_long()))
        if z3.is_algebraic_value(mv):
            return float(mv.approx(20).as_fraction())
        return float(mv.as_decimal(17).rstrip('?'))
    except Exception:
        return float('nan')


def _algebraic_roots(x, ctx):
    """Rewrite constant phasors that are roots of unity of order dividing 24 as cos + i sin with sqrt(2), sqrt(3) atoms
    (an exact identity), so that cyclotomic and radical representations of the same number become comparable."""
    from .core import root_of_unity_k, _HALF, _F0
    out = Sx({}, ctx)
    for (m, r, p), c in x.t.items():
        if r in (_F0, _HALF):
            out = out + Sx({(m, r, p): c}, ctx)
            continue
        cs = root_of_unity_k(r, ctx)
        if cs is None:
            out = out + Sx({(m, r, p): c}, ctx)
            continue
        if cs[0] != 0:
            out = out + Sx({(m, _F0, p): c * cs[0]}, ctx)
        if cs[1] != 0:
            out = out + Sx({(m, _HALF, p): c * cs[1]}, ctx)
    return out


def check_equal(ctx, lhs, rhs, pathcond=None, timeout_s=60, want_smt2=False):
    return check_equal_many(ctx, [(lhs, rhs)], pathcond, timeout_s, want_smt2)


def check_equal_many(ctx, pairs, pathcond=None, timeout_s=60, want_smt2=False, algebraic_roots=False):
    """Decide  forall atoms: pre & path -> AND_i lhs_i == rhs_i  (complex Sx values).

    Each side is reduced to its components over (content monomial, symbolic phasor, cyclotomic basis element);
    two values are equal as functions iff all components (rational functions of the parameter atoms, possibly with
    derived atoms constrained by their definitions) are equal.  The negation -- some component differs -- is what
    the solver is asked to satisfy.
    Returns dict(status = 'unsat' (holds) | 'sat' | 'unknown', env = counterexample values, ...)."""
    env = Z3Env(ctx)
    disj = []
    nontrivial = 0
    ncomp = 0
    seen = set()
    from .core import Qx
    for lhs, rhs in pairs:
        if isinstance(lhs, Qx) or isinstance(rhs, Qx):
            # quotients: decided by cross-multiplication (denominators are assumed non-zero)
            ql, qr = Qx.lift(lhs, ctx), Qx.lift(rhs, ctx)
            lhs, rhs = ql.num * qr.den, qr.num * ql.den
        lhs = Sx.const(lhs, ctx)
        rhs = Sx.const(rhs, ctx)
        if lhs is rhs:
            continue
        if algebraic_roots:
            lhs, rhs = _algebraic_roots(lhs, ctx), _algebraic_roots(rhs, ctx)
        M = common_M(lhs, rhs)
        cl = components(lhs, M)
        cr = components(rhs, M)
        for key in set(cl) | set(cr):
            a = cl.get(key, ctx.K0)
            b = cr.get(key, ctx.K0)
            ncomp += 1
            if a != b:
                nontrivial += 1
            sig = (a, b)
            if sig in seen:
                continue
            seen.add(sig)
            # a.n/a.d != b.n/b.d  <=>  a.n*b.d != b.n*a.d   (denominators assumed non-zero)
            an, ad = env.poly(a.numer), env.poly(a.denom)
            bn, bd = env.poly(b.numer), env.poly(b.denom)
            disj.append(an * bd != bn * ad)
    s = _new_solver(timeout_s)
    cons = []
    for b in ctx.pre:
        cons.append(env.boolean(b))
    for sb, val in (pathcond or []):
        zb = env.boolean(sb)
        cons.append(zb if val else z3.Not(zb))
    s.add(*cons)
    s.add(z3.Or(*disj) if disj else z3.BoolVal(False))
    s.add(*env.all_side())
    r, dt = _run(s)
    out = {'status': r, 'n_components': ncomp, 'syntactic_mismatch': nontrivial, 'time_s': dt,
           'atoms': len(env.vars)}
    if want_smt2:
        out['smt2'] = s.to_smt2()
    if r == 'sat':
        out['env'] = model_env(ctx, env, s.model())
    return out


def check_bool(ctx, goal, pathcond=None, timeout_s=60, want_smt2=False):
    """Decide forall atoms: pre & path -> goal, for a SymBool goal (real arithmetic)."""
    env = Z3Env(ctx)
    s = _new_solver(timeout_s)
    cons = [env.boolean(b) for b in ctx.pre]
    for sb, val in (pathcond or []):
        zb = env.boolean(sb)
        cons.append(zb if val else z3.Not(zb))
    s.add(*cons)
    s.add(z3.Not(env.boolean(goal)))
    s.add(*env.all_side())
    r, dt = _run(s)
    out = {'status': r, 'time_s': dt, 'atoms': len(env.vars)}
    if want_smt2:
        out['smt2'] = s.to_smt2()
    if r == 'sat':
        out['env'] = model_env(ctx, env, s.model())
    return out


def check_sat(ctx, pathcond=None, timeout_s=20):
    """Preconditions + path condition satisfiable? (vacuity guard)."""
    env = Z3Env(ctx)
    s = _new_solver(timeout_s)
    for b in ctx.pre:
        s.add(env.boolean(b))
    for sb, val in (pathcond or []):
        zb = env.boolean(sb)
        s.add(zb if val else z3.Not(zb))
    for n in ctx.param_names:
        env.var(n)
    s.add(*env.all_side())
    r, dt = _run(s)
    return r


def cross_check(smt2_text, timeout_s=10):
    """Second opinion on one query: the SMT-LIB text z3 was given, decided by the cvc5 binary.  Returns 'sat' | 'unsat' | 'unknown'
    ('unknown' also for a time-out, an error line or a missing binary -- never counted as agreement)."""
    import shutil
    import subprocess
    import tempfile
    exe = shutil.which('cvc5')
    if exe is None:
        return 'unknown'
    d = os.path.join(os.path.dirname(os.path.dirname(os.path.abspath(__file__))), '.tmp')
    os.makedirs(d, exist_ok=True)
    fd, path = tempfile.mkstemp(suffix='.smt2', dir=d)
    try:
        with os.fdopen(fd, 'w') as f:
            f.write('(set-logic ALL)\n' + smt2_text)
        try:
            r = subprocess.run([exe, '--lang', 'smt2', '--tlimit=%d' % int(timeout_s * 1000), path], capture_output=True, text=True,
                               timeout=timeout_s + 5)
        except subprocess.TimeoutExpired:
            return 'unknown'
        out = (r.stdout or '').strip().splitlines()
        if '(error' in (r.stdout or '') or '(error' in (r.stderr or ''):
            return 'unknown'
        for line in out:
            if line.strip() in ('sat', 'unsat', 'unknown'):
                return line.strip()
        return 'unknown'
    finally:
        try:
            os.remove(path)
        except OSError:
            pass
