"""symx.conc -- concrete-mode harness handle: runs a property harness on the REAL, unlifted prysm with float inputs.

Stdlib + numpy only (this runs under /venv/bin/python, the repository's interpreter).  Used for
  * replaying solver counterexamples against the unmodified code, and
  * translator validation 2 (symbolic result evaluated at a point == real code at that point).

usage:  /venv/bin/python -m symx.conc  < jobs.json  > results.json
"""
import sys
import os
import json
import math
import cmath
import importlib
import warnings
from fractions import Fraction

import numpy as np

RTOL = 1e-6


class Mismatch(Exception):
    pass


class ConcH:
    mode = 'concrete'

    def __init__(self, env, cfg):
        self.env = env
        self.cfg = cfg
        self.records = []     # dict(label, kind, ok, lhs, rhs)
        self.np = np
        self.pi = math.pi
        self.j = 1j
        self.nan = float('nan')
        self.inf = float('inf')
        self.assumptions = []

    # -- inputs -------------------------------------------------------------------------------
    def param(self, name, **info):
        return float(self.env[name])

    def iparam(self, name, **info):
        return int(round(self.env[name]))

    def content(self, name, **info):
        return float(self.env[name])

    def rarray(self, name, shape, **info):
        out = np.empty(shape, dtype=float)
        for idx in np.ndindex(*shape):
            out[idx] = self.env['%s_%s' % (name, '_'.join(map(str, idx)))]
        return out

    def carray(self, name, shape, **info):
        out = np.empty(shape, dtype=complex)
        for idx in np.ndindex(*shape):
            tag = '_'.join(map(str, idx))
            out[idx] = complex(self.env['%sr_%s' % (name, tag)], self.env['%si_%s' % (name, tag)])
        return out

    def angle(self, wname, full=False):
        return 2 * math.atan(float(self.env[wname]))

    def random_stub(self, mode):
        """Replace the random sources behind prysm's numpy shim by deterministic stubs: 'mean' -> noise-free values,
        'free' -> the values chosen by the solver (env pois_k / norm_k / uni_k)."""
        H = self
        mo = importlib.import_module('prysm.mathops')

        class _R:
            def __init__(self):
                self.c = {'pois': 0, 'norm': 0, 'uni': 0}

            def _next(self, kind):
                i = self.c[kind]
                self.c[kind] += 1
                return float(H.env['%s_%d' % (kind, i)])

            def poisson(self, lam=1.0, size=None):
                shape = np.shape(lam) if size is None else (size if isinstance(size, tuple) else (size,))
                out = np.array(np.broadcast_to(np.asarray(lam, dtype=float), shape), dtype=float)
                if mode != 'mean':
                    for idx in np.ndindex(*shape):
                        out[idx] = round(self._next('pois'))
                return out

            def normal(self, loc=0.0, scale=1.0, size=None):
                shape = np.shape(loc) if size is None else (size if isinstance(size, tuple) else (size,))
                out = np.array(np.broadcast_to(np.asarray(loc, dtype=float), shape), dtype=float)
                if mode != 'mean':
                    for idx in np.ndindex(*shape):
                        out[idx] += self._next('norm')
                return out

            def rand(self, *shape):
                out = np.empty(shape)
                for idx in np.ndindex(*shape):
                    out[idx] = self._next('uni')
                return out

            def uniform(self, low=0.0, high=1.0, size=None):
                shape = () if size is None else (size if isinstance(size, tuple) else (size,))
                out = np.empty(shape)
                for idx in np.ndindex(*shape):
                    out[idx] = low + (high - low) * self._next('uni')
                return out if shape != () else float(out)

            def default_rng(self, *a, **k):
                return self

        class _Proxy:
            def __init__(self, real):
                self._real = real
                self.random = _R()

            def __getattr__(self, k):
                return getattr(self._real, k)
        mo.np._srcmodule = _Proxy(mo._np)

    def memfile(self, suffix='.dat'):
        import tempfile
        d = os.path.join(os.path.dirname(os.path.dirname(os.path.abspath(__file__))), '.tmp')
        os.makedirs(d, exist_ok=True)
        fd, path = tempfile.mkstemp(suffix=suffix, dir=d)
        os.close(fd)
        self._tmpfiles = getattr(self, '_tmpfiles', []) + [path]
        return path

    def truncate(self, f, nbytes):
        data = open(f, 'rb').read()[:nbytes]
        g = self.memfile(os.path.splitext(f)[1])
        open(g, 'wb').write(data)
        return g

    def filesize(self, f):
        return os.path.getsize(f)

    def text_of(self, f):
        return open(f, 'r').read()

    def text_number(self, tok):
        return float(tok)

    def enable_dtype_model(self):
        return

    def frac(self, a, b=1):
        return a / b

    def const(self, v):
        return v

    def assume(self, cond, note=''):
        return

    def declare_complex(self, arr):
        return arr

    # -- math usable by oracles in both modes -------------------------------------------------
    def E(self, phase):
        """exp(i*pi*phase)"""
        return cmath.exp(1j * math.pi * phase) if not isinstance(phase, np.ndarray) else np.exp(1j * np.pi * phase)

    def sqrt(self, x):
        return np.sqrt(x) if isinstance(x, np.ndarray) else (math.sqrt(x) if x >= 0 else float('nan'))

    def cos(self, x):
        return np.cos(x)

    def sin(self, x):
        return np.sin(x)

    def exp(self, x):
        return np.exp(x)

    def conj(self, x):
        return np.conj(x)

    def real(self, x):
        return np.real(x)

    def imag(self, x):
        return np.imag(x)

    def abs2(self, x):
        return np.real(x * np.conj(x))

    def floor(self, x):
        return math.floor(x)

    def ceil(self, x):
        return math.ceil(x)

    def diff(self, expr_fn, name, h=None):
        raise NotImplementedError('symbolic derivative only')

    def zeros(self, shape, complex_=True):
        return np.zeros(shape, dtype=complex if complex_ else float)

    def asarray(self, x):
        return np.asarray(x)

    def is_nan(self, v):
        return isinstance(v, float) and v != v or (isinstance(v, (np.floating, np.complexfloating)) and np.isnan(v))

    def linear_map(self, fn, shape, complex_=True, name='f'):
        """Kernel of a linear map by impulse responses (the real code is run once per input sample); linearity is
        checked on the random input stored in env."""
        base = np.asarray(fn(np.zeros(shape, dtype=complex if complex_ else float)))
        C = None
        for iidx in np.ndindex(*shape):
            e = np.zeros(shape, dtype=complex if complex_ else float)
            e[iidx] = 1
            out = np.asarray(fn(e)) - base
            if C is None:
                C = np.zeros(tuple(shape) + out.shape, dtype=complex)
            C[iidx] = out
        f = self.carray(name, shape) if complex_ else self.rarray(name, shape)
        full = np.asarray(fn(f.copy()))      # a copy: some routines scale their argument in place
        lin = np.tensordot(f, C, axes=(list(range(len(shape))), list(range(len(shape)))))
        self.eq('linear: no constant/higher-order part', full - lin, 0 * full, scale=float(np.max(np.abs(full), initial=0)))
        if complex_:
            rot = np.asarray(fn(1j * f)) - base
            self.eq('linear: complex-linear', rot, 1j * (full - base), scale=float(np.max(np.abs(full), initial=0)))
        return C

    # -- modules ------------------------------------------------------------------------------
    def mod(self, name):
        return importlib.import_module(name)

    # -- obligations --------------------------------------------------------------------------
    def _rec(self, label, kind, ok, lhs=None, rhs=None, note=''):
        self.records.append({'label': label, 'kind': kind, 'ok': bool(ok), 'lhs': _ser(lhs), 'rhs': _ser(rhs),
                             'note': note})

    def eq(self, label, a, b, scale=None, rtol=None, tv2=True):
        a = np.asarray(a)
        b = np.asarray(b)
        if self.cfg.get('__twin__'):
            b = np.array(b, dtype=complex if (b.dtype.kind == 'c' or a.dtype.kind == 'c') else float, copy=True, order='C')
            flat = b.reshape(-1)
            for i in range(flat.size):
                if np.isfinite(flat[i]):
                    # deliberately wrong by more than any tolerance relative to the values at hand
                    flat[i] = flat[i] + 1 + float(np.max(np.abs(np.where(np.isfinite(b), b, 0)), initial=0))
                    break
        if a.shape != b.shape:
            try:
                b = np.broadcast_to(b, a.shape)
            except ValueError:
                self._rec(label, 'eq', False, list(a.shape), list(b.shape), 'shape mismatch')
                return
        nan_a, nan_b = ~np.isfinite(a), ~np.isfinite(b)
        if (nan_a != nan_b).any():
            self._rec(label, 'eq', False, a, b, 'NaN pattern differs')
            return
        av = np.where(nan_a, 0, a)
        bv = np.where(nan_b, 0, b)
        ref = max(float(np.max(np.abs(av), initial=0)), float(np.max(np.abs(bv), initial=0)), scale or 0.0, 1e-6)
        err = float(np.max(np.abs(av - bv), initial=0))
        self._rec(label, 'eq', err <= (rtol or RTOL) * ref, a, b, 'max abs err %.3e ref %.3e' % (err, ref))

    def holds(self, label, cond, note=''):
        if self.cfg.get('__twin__'):
            cond = not bool(cond)
        self._rec(label, 'holds', bool(cond), None, None, note)

    def le(self, label, a, b, note=''):
        a = float(np.real(a))
        b = float(np.real(b))
        tol = RTOL * max(abs(a), abs(b), 1e-6)
        ok = a <= b + tol
        if self.cfg.get('__twin__'):
            ok = a > b + tol     # the twin asserts the negation (a > b)
        self._rec(label, 'le', ok, a, b, note)

    def shape_is(self, label, arr, shape):
        self._rec(label, 'shape', tuple(np.shape(arr)) == tuple(shape), list(np.shape(arr)), list(shape))

    def value(self, label, v):
        """Record a value for translator validation only (no obligation)."""
        self._rec(label, 'value', True, v, None)

    def expect_no_raise(self, label, fn):
        try:
            return fn()
        except Exception as e:   # noqa
            self._rec(label, 'raises', False, None, None, '%s: %s' % (type(e).__name__, e))
            return None


def _ser(v):
    if v is None:
        return None
    a = np.asarray(v)
    if a.dtype == object:
        return None
    if a.dtype.kind == 'c':
        return {'shape': list(a.shape), 're': _fl(a.real), 'im': _fl(a.imag)}
    if a.dtype.kind in 'fiub':
        return {'shape': list(a.shape), 're': _fl(a.astype(float))}
    return None


def _fl(a):
    out = []
    for v in np.asarray(a, dtype=float).reshape(-1):
        out.append(None if v != v else (float(v) if abs(v) != float('inf') else None))
    return out


def run_job(job):
    """job: dict(prop, cfg, env) -> dict(records, exception)"""
    mod = importlib.import_module('props.' + job['prop'])
    H = ConcH(job['env'], job['cfg'])
    exc = None
    with warnings.catch_warnings():
        warnings.simplefilter('ignore')
        old = np.seterr(all='ignore')
        try:
            mod.run(job['cfg'], H)
        except Exception as e:   # noqa
            import traceback
            tb = traceback.extract_tb(e.__traceback__)
            where = ''
            for fr in tb:
                if '/prysm/' in fr.filename:
                    where = '%s:%d' % (fr.filename, fr.lineno)
            hl = [fr.lineno for fr in tb if '/props/' in fr.filename]
            exc = {'type': type(e).__name__, 'msg': str(e)[:300], 'where': where, 'hline': hl[-1] if hl else None}
        finally:
            np.seterr(**old)
            for f in getattr(H, '_tmpfiles', []):
                try:
                    os.remove(f)
                except OSError:
                    pass
    return {'records': H.records, 'exception': exc}


def main():
    jobs = json.load(sys.stdin)
    here = os.path.dirname(os.path.dirname(os.path.abspath(__file__)))
    if here not in sys.path:
        sys.path.insert(0, here)
    repo = os.environ.get('PRYSM_REPO', '/repo')
    if repo not in sys.path:
        sys.path.insert(0, repo)
    out = []
    for job in jobs:
        # fresh executor caches for every job: re-import is too slow, clear instead
        try:
            ft = importlib.import_module('prysm.fttools')
            ft.mdft.clear()
            ft.czt.clear()
            importlib.import_module('prysm.conf').config.precision = 64
            mo = importlib.import_module('prysm.mathops')
            mo.np._srcmodule = mo._np
        except Exception:   # noqa
            pass
        out.append(run_job(job))
    json.dump(out, sys.stdout)


if __name__ == '__main__':
    main()
