#!/usr/bin/env python3
"""Regenerates MANIFEST.json from the per-property harness modules (props/Cxx.py) and the NOT_APPLICABLE table below."""
import json
import os
import importlib
import sys

VERIF = os.path.dirname(os.path.abspath(__file__))
sys.path.insert(0, VERIF)

NOT_APPLICABLE = {
}
PENDING_REASON = 'harness not built yet in this session (engine under construction); to be claimed once its check lands'

TECHNIQUE = {
}
DEFAULT_TECH = ('bounded symbolic execution of the lifted real source over an exact real/phasor domain; '
                'z3 (QF_NRA) decides every obligation; sat models replayed on the real code')


def main():
    props = [json.loads(l) for l in open(os.path.join(VERIF, 'properties.jsonl'))]
    checks, na = [], []
    for p in props:
        pid = p['id']
        path = os.path.join(VERIF, 'props', pid + '.py')
        if pid in NOT_APPLICABLE:
            na.append({'property_id': pid, 'reason': NOT_APPLICABLE[pid]})
            continue
        if not os.path.exists(path):
            na.append({'property_id': pid, 'reason': PENDING_REASON})
            continue
        mod = importlib.import_module('props.' + pid)
        if getattr(mod, 'NOT_READY', False):
            na.append({'property_id': pid, 'reason': PENDING_REASON})
            continue
        checks.append({
            'property_id': pid,
            'quick_cmd': './check %s --tier quick' % pid,
            'thorough_cmd': './check %s --tier thorough' % pid,
            'evidence_file': '/verif/evidence/%s.json' % pid,
            'replay_cmd_template': './check --replay {path}',
            'engine': 'symx',
            'level_claimed': {
                'category': 'other',
                'text': 'Bounded symbolic verification: the real functions are executed symbolically (array contents and real '
                        'parameters are symbols, shapes/orders concrete and enumerated up to the stated bound) and an SMT solver '
                        'decides each obligation for ALL values of the symbols; this is stronger than sampling inside the bound '
                        'and says nothing outside it. Bounds: quick: %s; thorough: %s.' % (
                            mod.BOUNDS.get('quick', ''), mod.BOUNDS.get('thorough', '')),
                'design_ref': 'DESIGN.md section 3 (%s)' % pid,
            },
            'level_note': ('Exact-real abstraction of floating point (stated, validated per run by translator validation 2 '
                           'against the real float code); trusted: CPython, numpy object-array plumbing, sympy polynomial gcd, '
                           'z3, the lifter (validated by running the repo test-suite on the lifted package in setup_cmd), '
                           'stubs: %s. Outside the claim: %s' % ('; '.join(getattr(mod, 'STUBS', [])) or 'none', getattr(mod, 'OUTSIDE', ''))),
            'technique': getattr(mod, 'TECHNIQUE', DEFAULT_TECH),
        })
    man = {
        'version': 1,
        'setup_cmd': './setup.sh',
        'hooks': {
            'guard': 'PRYSM_VERIF',
            'enable': 'no source hooks are needed: the backend switch (prysm.mathops BackendShim._srcmodule) is prysm\'s public API and the lifting happens outside the repository at import time',
            'baseline_off_cmd': 'cd /repo && /venv/bin/python -m pytest -ra -q -p no:cacheprovider --timeout=900 --continue-on-collection-errors',
            'source_commits': [],
            'add_only': True,
        },
        'engines': [{'name': 'symx', 'path': '/verif/symx', 'serves_properties': [c['property_id'] for c in checks],
                     'kind_free_text': 'symbolic execution of the lifted Python source over exact scalars (sympy rational-function field + phasors), obligations to z3'}],
        'checks': checks,
        'not_applicable': na,
        'notes': 'Fixes of genuine defects found by the checks are separate "fix:" commits in /repo; see known_findings.json and DESIGN.md section 5.',
    }
    json.dump(man, open(os.path.join(VERIF, 'MANIFEST.json'), 'w'), indent=1)
    print('claimed:', [c['property_id'] for c in checks])
    print('not applicable:', [c['property_id'] for c in na])


if __name__ == '__main__':
    main()
