#!/bin/bash
# Offline set-up / self-test: nothing is downloaded or compiled.
set -e
cd "$(dirname "$0")"
python3-vt -c "import numpy, scipy, sympy, z3; print('tooling venv ok: numpy', numpy.__version__, 'sympy', sympy.__version__, 'z3', z3.get_version_string())"
/venv/bin/python -c "import numpy, prysm; print('repo interpreter ok: numpy', numpy.__version__)"
mkdir -p evidence/replays .tmp
python3 tv1.py
