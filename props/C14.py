"""C14 -- writing then reading an instrument file returns the same map (Zygo .dat and the Interferogram save/load pair)."""
import warnings

ID = 'C14'
FILES = ['prysm/io.py', 'prysm/interferogram.py']
FUNCTIONS = ['io.write_zygo_dat', 'io.read_zygo_dat', 'io.read_zygo_metadata/_zygo_metadata_helper', 'Interferogram.save_zygo_dat/from_zygo_dat']
STUBS = ['file transport: header fields go through the real struct.pack/unpack; the int32 data block is carried losslessly as the exact (symbolic) integers '
         'that were written (tobytes / frombuffer / file write / open / read)', 'astype(int32) -> truncate toward zero, wrap modulo 2^32; NaN -> arbitrary value',
         'boolean-mask assignment decides each comparison with the solver']
EXPLANATION = ('Heights are field-level symbols (|h| <= 10^4 nm), NaN patterns are enumerated, dx and wavelength are concrete per configuration (they go '
               'through struct.pack). The writer and reader run on an in-memory file; obligations: shape, orientation (every written symbol comes back at '
               'its own index), NaNs in the same places, |read - written| <= one quantisation step (plus the float32 rounding of the header wavelength), '
               'dx and wavelength to header precision. Truncation: the file is cut at sample boundaries, inside a sample and inside the header.')
BOUNDS = {'quick': 'shapes 1x3, 3x1, 2x3, 3x2, 3x3 with 4 NaN patterns; cuts at every sample boundary of a 2x3 file, two mid-sample cuts, one header cut',
          'thorough': 'shapes up to 4x5; cuts at every byte of the data block of a 2x3 file'}
OUTSIDE = ('Code V grid INT text files (write_codev_gridint / read_codev_gridint): their content is formatted and parsed as text (savetxt, fromstring, header '
           'tokens) -- string-level behaviour this engine does not model; read_zygo_datx (HDF5), Zygo ASCII, multi-bucket intensity frames')
NDERIVED = 120
MAX_PATHS = 64
CFG_TIMEOUT = {'quick': 900, 'thorough': 3600}
HEADER = 834


def nan_cells(kind, shape):
    m, n = shape
    return {'none': [], 'corner': [(0, 0)], 'row': [(m - 1, j) for j in range(n)], 'interior': [(m // 2, n // 2)], 'lastcol': [(i, n - 1) for i in range(m)]}[kind]


def configs(tier):
    q = tier == 'quick'
    out = []
    shapes = [(1, 3), (3, 1), (2, 3), (3, 2), (3, 3)] + ([] if q else [(4, 5), (2, 2), (5, 2)])
    for shp in shapes:
        for pat in ('none', 'corner', 'row', 'interior'):
            if shp in ((1, 3), (3, 1)) and pat == 'row':
                pat = 'corner'
            out.append({'name': 'zygo-roundtrip-%dx%d-%s' % (shp[0], shp[1], pat), 'kind': 'roundtrip', 'shape': list(shp), 'nan': pat})
    out.append({'name': 'ifg-roundtrip-2x3', 'kind': 'ifg', 'shape': [2, 3], 'nan': 'corner'})
    cuts = [HEADER + 4 * k for k in range(0, 6)] + [HEADER + 5, HEADER + 18, HEADER + 23]
    if not q:
        cuts = sorted(set(range(HEADER, HEADER + 24)))
    for c in cuts:
        out.append({'name': 'zygo-truncated-at-%d' % c, 'kind': 'trunc', 'shape': [2, 3], 'cut': c})
    out.append({'name': 'zygo-truncated-in-header', 'kind': 'trunc_header', 'shape': [2, 3], 'cut': 500})
    return out


def params(cfg):
    m, n = cfg['shape']
    return [('h_%d_%d' % (i, j), {'lo': -10000, 'hi': 10000}) for i in range(m) for j in range(n)]


def build(H, cfg):
    np = H.np
    m, n = cfg['shape']
    ph = H.zeros((m, n), complex_=False)
    for i in range(m):
        for j in range(n):
            ph[i, j] = H.param('h_%d_%d' % (i, j))
    nanset = set(nan_cells(cfg.get('nan', 'none'), (m, n)))
    for (i, j) in nanset:
        ph[i, j] = H.nan
    return ph, nanset


def run(cfg, H):
    np = H.np
    io = H.mod('prysm.io')
    k = cfg['kind']
    m, n = cfg['shape']
    dx = H.frac(1, 4)
    wvl = H.frac(6328, 10000)
    ph, nanset = build(H, cfg)
    step = wvl / 1000000 / 32768 * 1000000000        # nm per count (phase_res 1 -> 32768 counts per wave)
    if k in ('roundtrip', 'ifg'):
        f = H.memfile()
        if k == 'roundtrip':
            io.write_zygo_dat(f, ph, dx, wvl)
            res = io.read_zygo_dat(f)
            got = res['phase']
            meta = res['meta']
            H.holds('lateral resolution survives (float32 header field)', abs(float(meta['lateral_resolution']) * 1000 - 0.25) < 1e-6)
            H.holds('wavelength survives (float32 header field)', abs(float(meta['wavelength']) * 1e6 - 0.6328) < 1e-6)
        else:
            I = H.mod('prysm.interferogram')
            ifg = I.Interferogram(ph, dx=dx, wavelength=wvl)
            ifg.save_zygo_dat(f)
            back = I.Interferogram.from_zygo_dat(f)
            got = back.data
            H.holds('Interferogram dx survives the file', abs(float(back.dx) - 0.25) < 1e-5)
            H.holds('Interferogram wavelength survives the file', abs(float(back.wavelength) - 0.6328) < 1e-5)
        _same_map(H, got, ph, nanset, (m, n), step)
    elif k == 'trunc':
        f = H.memfile()
        io.write_zygo_dat(f, ph, dx, wvl)
        full = io.read_zygo_dat(f)['phase']
        g = H.truncate(f, cfg['cut'])
        with warnings.catch_warnings(record=True) as wlist:
            warnings.simplefilter('always')
            res = H.expect_no_raise('reading a file cut inside its data block', lambda: io.read_zygo_dat(g))
        if res is None:
            return
        got = res['phase']
        H.holds('a warning is issued for the truncated file', len(wlist) > 0)
        H.shape_is('truncated read keeps the shape', got, (m, n))
        # the data block is written bottom row first (flipud): sample q of the flat block is complete iff its 4 bytes precede the cut
        nfull = max(0, (cfg['cut'] - HEADER) // 4)
        flat_full = np.asarray(np.flipud(np.asarray(full, dtype=object) if H.mode == 'symbolic' else full)).reshape(-1)
        flat_got = np.asarray(np.flipud(np.asarray(got, dtype=object) if H.mode == 'symbolic' else got)).reshape(-1)
        for q_ in range(m * n):
            if q_ < nfull:
                H.eq('sample %d (complete in the file) is read as from the full file' % q_, flat_got[q_], flat_full[q_])
            else:
                H.holds('sample %d (missing or cut) is marked invalid' % q_, bool(H.is_nan(flat_got[q_]) if H.mode == 'symbolic' else np.isnan(flat_got[q_])))
    elif k == 'trunc_header':
        f = H.memfile()
        io.write_zygo_dat(f, ph, dx, wvl)
        g = H.truncate(f, cfg['cut'])
        raised = False
        try:
            io.read_zygo_dat(g)
        except Exception:   # noqa
            raised = True
        H.holds('a file cut inside its header is rejected with an exception', raised)


def _same_map(H, got, ph, nanset, shape, step):
    np = H.np
    m, n = shape
    H.shape_is('shape survives', got, (m, n))
    if tuple(np.shape(got)) != (m, n):
        return
    for i in range(m):
        for j in range(n):
            v = got[i, j]
            isn = bool(H.is_nan(v)) if H.mode == 'symbolic' else bool(np.isnan(v))
            if (i, j) in nanset:
                H.holds('invalid sample (%d,%d) stays invalid' % (i, j), isn)
            else:
                H.holds('valid sample (%d,%d) stays valid' % (i, j), not isn)
                if not isn:
                    w = ph[i, j]
                    # one count of the int32 format, plus the float32 rounding of the header's wavelength (2e-7 relative, |h| <= 1e4 nm)
                    tol = step + H.frac(2, 1000)
                    H.le('read(%d,%d) <= written + one quantisation step' % (i, j), v, w + tol)
                    H.le('read(%d,%d) >= written - one quantisation step' % (i, j), w - tol, v)
