"""C14 -- writing then reading an instrument file returns the same map (Zygo .dat, Code V grid INT, the Interferogram save/load pair)."""
import warnings

ID = 'C14'
FILES = ['prysm/io.py', 'prysm/interferogram.py']
FUNCTIONS = ['io.write_zygo_dat', 'io.read_zygo_dat', 'io.read_zygo_metadata/_zygo_metadata_helper', 'Interferogram.save_zygo_dat/from_zygo_dat',
             'io.write_codev_gridint', 'io.read_codev_gridint']
STUBS = ['file transport: header fields go through the real struct.pack/unpack; the int32 data block is carried losslessly as the exact (symbolic) integers '
         'that were written (tobytes / frombuffer / file write / open / read)', 'astype(int32) -> truncate toward zero, wrap modulo 2^32; NaN -> arbitrary value',
         'boolean-mask assignment decides each comparison with the solver',
         'text transport (Code V): savetxt / f-string formatting render a number as a placeholder token that float() / int() / fromstring parse back to '
         'the same value (contract: repr of a float and %d of an integer round-trip exactly); all other string handling of the reader (find, split, '
         'slicing, header tokens) runs as written on the real text; pathlib.Path(file).read_text() reads the in-memory file',
         'astype(int16) -> truncate toward zero, wrap modulo 2^16']
EXPLANATION = ('Heights are field-level symbols (|h| <= 10^4 nm), NaN patterns are enumerated, dx and wavelength are concrete per configuration (they go '
               'through struct.pack). The writer and reader run on an in-memory file; obligations: shape, orientation (every written symbol comes back at '
               'its own index), NaNs in the same places, |read - written| <= one quantisation step (plus the float32 rounding of the header wavelength), '
               'dx and wavelength to header precision. Truncation: the file is cut at sample boundaries, inside a sample and inside the header. '
               'Code V grid INT: the map is a * r with a = max|h| symbolic and the ratios r symbolic (position and sign of the extreme sample enumerated), '
               'the step is read from the SSZ the writer put in the header; shape, orientation, NaN placement, |read - written| <= one step; the text '
               'is cut after every number of a 2x3 file: rejected, or read with the missing samples invalid and a warning.')
BOUNDS = {'quick': 'Zygo: shapes 1x3, 3x1, 2x3, 3x2, 3x3 with 4 NaN patterns; cuts at every sample boundary of a 2x3 file, two mid-sample cuts, one header '
                   'cut. Code V: shapes 1x3, 3x1, 2x3, 3x2, 2x2 with 2 NaN patterns, extreme sample first/last valid cell, a in [1000*2^-52, 10^4] nm '
                   'symbolic plus two concrete amplitudes below the all-zero threshold, the zero map, two tie maps, two concrete amplitudes of 10^7 and 10^9 nm; cuts after each of the 6 numbers',
          'thorough': 'Zygo: shapes up to 4x5; cuts at every byte of the data block of a 2x3 file. Code V: also 1x4, 4x1, 1x5; extreme sample at '
                      'every valid cell with both signs'}
OUTSIDE = ('Code V: the digits of a number (a cut inside a number, which a text format cannot distinguish from a shorter number), comment lines and '
           'titles containing "!", all-NaN maps, symbolic amplitudes above 10^4 nm (two concrete amplitudes of 10^7 and 10^9 nm are included); read_zygo_datx (HDF5), Zygo ASCII, multi-bucket intensity frames')
NDERIVED = 120
MAX_PATHS = 64
CFG_TIMEOUT = {'quick': 900, 'thorough': 3600}
HEADER = 834


def nan_cells(kind, shape):
    m, n = shape
    return {'none': [], 'corner': [(0, 0)], 'row': [(m - 1, j) for j in range(n)], 'interior': [(m // 2, n // 2)], 'lastcol': [(i, n - 1) for i in range(m)]}[kind]


def configs(tier):
    q = tier == 'quick'
    out = []
    shapes = [(1, 3), (3, 1), (2, 3), (3, 2), (3, 3)] + ([] if q else [(4, 5), (2, 2), (5, 2)])
    for shp in shapes:
        for pat in ('none', 'corner', 'row', 'interior'):
            if shp in ((1, 3), (3, 1)) and pat == 'row':
                pat = 'corner'
            out.append({'name': 'zygo-roundtrip-%dx%d-%s' % (shp[0], shp[1], pat), 'kind': 'roundtrip', 'shape': list(shp), 'nan': pat})
    out.append({'name': 'ifg-roundtrip-2x3', 'kind': 'ifg', 'shape': [2, 3], 'nan': 'corner'})
    # dx = 0 is the documented "no lateral calibration" value; column-major (transposed / asfortranarray) input maps
    out.append({'name': 'zygo-roundtrip-2x3-no-lateral-calibration', 'kind': 'roundtrip', 'shape': [2, 3], 'nan': 'corner', 'dx0': True})
    out.append({'name': 'ifg-roundtrip-2x3-no-lateral-calibration', 'kind': 'ifg', 'shape': [2, 3], 'nan': 'none', 'dx0': True})
    out.append({'name': 'zygo-roundtrip-3x2-column-major', 'kind': 'roundtrip', 'shape': [3, 2], 'nan': 'corner', 'layout': 'F'})
    out.append({'name': 'ifg-roundtrip-2x3-column-major', 'kind': 'ifg', 'shape': [2, 3], 'nan': 'corner', 'layout': 'F'})
    cuts = [HEADER + 4 * k for k in range(0, 6)] + [HEADER + 5, HEADER + 18, HEADER + 23]
    if not q:
        cuts = sorted(set(range(HEADER, HEADER + 24)))
    for c in cuts:
        out.append({'name': 'zygo-truncated-at-%d' % c, 'kind': 'trunc', 'shape': [2, 3], 'cut': c})
    out.append({'name': 'zygo-truncated-in-header', 'kind': 'trunc_header', 'shape': [2, 3], 'cut': 500})
    # Code V grid INT (text).  Without loss of generality a map with a non-zero sample is h = a * r with a = max|h| > 0, r in (-1, 1) and
    # r = +-1 at one sample (position and sign enumerated; ties of the extreme value as separate configurations); a is symbolic over [1000 * 2^-52, 10^4] nm (above the writer's "all zero"
    # threshold), or one of two concrete values below that threshold; 'allzero' is the constant-zero map
    cvshapes = [(1, 3), (3, 1), (2, 3), (3, 2), (2, 2)] + ([] if q else [(1, 4), (4, 1), (1, 5)])      # 8-9 sample maps exhaust the path budget (orderings)
    for shp in cvshapes:
        for pat in ('none', 'corner'):
            cells = [(i, j) for i in range(shp[0]) for j in range(shp[1]) if (i, j) not in nan_cells(pat, shp)]
            big = shp[0] * shp[1] > 6
            # thorough: every valid cell for maps of up to 6 samples; first / middle / last for the larger ones (the number of orderings of
            # the samples, hence of paths, grows factorially)
            peaks = [cells[0], cells[-1]] if q else (cells if not big else [cells[0], cells[len(cells) // 2], cells[-1]])
            for pk in peaks:
                for sgn in (1, -1):
                    if (q or big) and (sgn == 1) != (pk == cells[0]) and shp != (2, 3):
                        continue
                    out.append({'name': 'codev-roundtrip-%dx%d-%s-peak%d%d%s' % (shp[0], shp[1], pat, pk[0], pk[1], '+' if sgn > 0 else '-'),
                                'kind': 'cv', 'shape': list(shp), 'nan': pat, 'vals': 'free', 'peak': list(pk), 'sign': sgn})
    # amplitudes far above a micron (concrete, so that whatever the writer puts in the header is formatted as the real code formats it)
    for huge in ('10^7+1/3', '10^9'):
        out.append({'name': 'codev-roundtrip-2x3-huge-%s' % huge, 'kind': 'cv', 'shape': [2, 3], 'nan': 'none', 'vals': 'huge', 'huge': huge,
                    'peak': [1, 1], 'sign': -1})
    # ties: a second sample with the opposite extreme value
    out.append({'name': 'codev-roundtrip-2x3-tie', 'kind': 'cv', 'shape': [2, 3], 'nan': 'none', 'vals': 'free', 'peak': [0, 1], 'sign': 1, 'tie': [1, 2]})
    out.append({'name': 'codev-roundtrip-3x1-tie', 'kind': 'cv', 'shape': [3, 1], 'nan': 'none', 'vals': 'free', 'peak': [2, 0], 'sign': -1, 'tie': [0, 0]})
    for tiny in ('2^-60', '15/16 of the threshold'):
        out.append({'name': 'codev-roundtrip-2x3-tiny-%s' % tiny.split()[0], 'kind': 'cv', 'shape': [2, 3], 'nan': 'none', 'vals': 'tiny', 'tiny': tiny,
                    'peak': [0, 1], 'sign': -1})
    out.append({'name': 'codev-roundtrip-2x2-allzero', 'kind': 'cv', 'shape': [2, 2], 'nan': 'none', 'vals': 'allzero', 'peak': [0, 0], 'sign': 1})
    for kcut in range(0, 6):
        out.append({'name': 'codev-truncated-after-%d-numbers' % kcut, 'kind': 'cv_trunc', 'shape': [2, 3], 'cut': kcut, 'nan': 'none', 'vals': 'free',
                    'peak': [1, 0], 'sign': 1})
    return out


def params(cfg):
    m, n = cfg['shape']
    if cfg['kind'] in ('cv', 'cv_trunc'):
        from fractions import Fraction
        ps = [('r_%d_%d' % (i, j), {'gt': -1, 'lt': 1}) for i in range(m) for j in range(n) if [i, j] != cfg['peak'] and [i, j] != cfg.get('tie')]
        if cfg['vals'] == 'free':
            ps.append(('a', {'lo': Fraction(1000, 2 ** 52), 'hi': 10000}))
        return ps
    return [('h_%d_%d' % (i, j), {'lo': -10000, 'hi': 10000}) for i in range(m) for j in range(n)]


def build(H, cfg):
    np = H.np
    m, n = cfg['shape']
    ph = H.zeros((m, n), complex_=False)
    amp = None
    if cfg['kind'] in ('cv', 'cv_trunc'):
        v = cfg['vals']
        if v == 'free':
            amp = H.param('a')
        elif v == 'huge':
            amp = H.frac(3 * 10 ** 7 + 1, 3) if cfg['huge'].startswith('10^7') else H.frac(10 ** 9)
        elif v == 'tiny':
            amp = H.frac(1000, 2 ** 60) if cfg['tiny'].startswith('2^') else H.frac(15 * 1000, 16 * 2 ** 52)
        else:
            amp = H.frac(0)
        for i in range(m):
            for j in range(n):
                ph[i, j] = amp * (cfg['sign'] if [i, j] == cfg['peak'] else (-cfg['sign'] if [i, j] == cfg.get('tie') else H.param('r_%d_%d' % (i, j))))
    else:
        for i in range(m):
            for j in range(n):
                ph[i, j] = H.param('h_%d_%d' % (i, j))
    nanset = set(nan_cells(cfg.get('nan', 'none'), (m, n)))
    for (i, j) in nanset:
        ph[i, j] = H.nan
    return ph, nanset, amp


def run(cfg, H):
    np = H.np
    io = H.mod('prysm.io')
    k = cfg['kind']
    m, n = cfg['shape']
    dx = 0 if cfg.get('dx0') else H.frac(1, 4)
    dx_f = 0.0 if cfg.get('dx0') else 0.25
    # not the writers' default wavelength (0.6328) for the Interferogram pair and for odd-sized maps
    wvl = H.frac(1064, 1000) if (k == 'ifg' or (m * n) % 2) else H.frac(6328, 10000)
    wvl_f = 1.064 if (k == 'ifg' or (m * n) % 2) else 0.6328
    ph, nanset, amp = build(H, cfg)
    if cfg.get('layout') == 'F':
        ph = H.asarray(np.asfortranarray(ph))
    step = wvl / 1000000 / 32768 * 1000000000        # nm per count (phase_res 1 -> 32768 counts per wave)
    if k in ('roundtrip', 'ifg'):
        f = H.memfile()
        if k == 'roundtrip':
            io.write_zygo_dat(f, ph, dx, wvl)
            res = io.read_zygo_dat(f)
            got = res['phase']
            meta = res['meta']
            H.holds('lateral resolution survives (float32 header field)', abs(float(meta['lateral_resolution']) * 1000 - dx_f) < 1e-6)
            H.holds('wavelength survives (float32 header field)', abs(float(meta['wavelength']) * 1e6 - wvl_f) < 1e-6)
        else:
            I = H.mod('prysm.interferogram')
            ifg = I.Interferogram(ph, dx=dx, wavelength=wvl)
            ifg.save_zygo_dat(f)
            back = I.Interferogram.from_zygo_dat(f)
            got = back.data
            H.holds('Interferogram dx survives the file', abs(float(back.dx) - dx_f) < 1e-5)
            H.holds('Interferogram wavelength survives the file', abs(float(back.wavelength) - wvl_f) < 1e-5)
        _same_map(H, got, ph, nanset, (m, n), step)
    elif k == 'trunc':
        f = H.memfile()
        io.write_zygo_dat(f, ph, dx, wvl)
        full = io.read_zygo_dat(f)['phase']
        g = H.truncate(f, cfg['cut'])
        with warnings.catch_warnings(record=True) as wlist:
            warnings.simplefilter('always')
            res = H.expect_no_raise('reading a file cut inside its data block', lambda: io.read_zygo_dat(g))
        if res is None:
            return
        got = res['phase']
        H.holds('a warning is issued for the truncated file', len(wlist) > 0)
        H.shape_is('truncated read keeps the shape', got, (m, n))
        # the data block is written bottom row first (flipud): sample q of the flat block is complete iff its 4 bytes precede the cut
        nfull = max(0, (cfg['cut'] - HEADER) // 4)
        flat_full = np.asarray(np.flipud(np.asarray(full, dtype=object) if H.mode == 'symbolic' else full)).reshape(-1)
        flat_got = np.asarray(np.flipud(np.asarray(got, dtype=object) if H.mode == 'symbolic' else got)).reshape(-1)
        for q_ in range(m * n):
            if q_ < nfull:
                H.eq('sample %d (complete in the file) is read as from the full file' % q_, flat_got[q_], flat_full[q_])
            else:
                H.holds('sample %d (missing or cut) is marked invalid' % q_, bool(H.is_nan(flat_got[q_]) if H.mode == 'symbolic' else np.isnan(flat_got[q_])))
    elif k in ('cv', 'cv_trunc'):
        f = H.memfile('.int')
        io.write_codev_gridint(ph, f)
        txt = H.text_of(f)
        lines = txt.split('\n')
        toks = lines[1].split()
        ssz = H.text_number(toks[toks.index('SSZ') + 1])
        wvl = H.text_number(toks[toks.index('WVL') + 1])
        if k == 'cv':
            got, meta = io.read_codev_gridint(f)
            # one count of the file: 1/SSZ waves of WVL microns
            cstep = 1000 * wvl / ssz
            if cstep < 0:
                cstep = -cstep
            _same_map(H, got, ph, nanset, (m, n), cstep, slack=H.frac(1, 10 ** 6), unit=(amp if cfg['vals'] == 'free' else None))
        else:
            import re
            data0 = len(lines[0]) + len(lines[1]) + 2
            ends = [data0 + mt.end() for mt in re.finditer(r'\S+', txt[data0:])]
            cut = data0 if cfg['cut'] == 0 else ends[cfg['cut'] - 1]
            g = H.truncate(f, cut)
            with warnings.catch_warnings(record=True) as wlist:
                warnings.simplefilter('always')
                try:
                    res = io.read_codev_gridint(g)
                except Exception:   # noqa -- rejected: allowed
                    res = None
            H.value('cut file rejected', res is None)
            if res is not None:
                got = res[0]
                H.holds('a warning is issued for the truncated file', len(wlist) > 0)
                H.shape_is('truncated read keeps the shape', got, (m, n))
                if tuple(np.shape(got)) == (m, n):
                    flat = np.asarray(np.flipud(np.asarray(got, dtype=object) if H.mode == 'symbolic' else got)).reshape(-1)
                    for q_ in range(cfg['cut'], m * n):
                        H.holds('sample %d (missing) is marked invalid' % q_, bool(H.is_nan(flat[q_]) if H.mode == 'symbolic' else np.isnan(flat[q_])))
    elif k == 'trunc_header':
        f = H.memfile()
        io.write_zygo_dat(f, ph, dx, wvl)
        g = H.truncate(f, cfg['cut'])
        raised = False
        try:
            io.read_zygo_dat(g)
        except Exception:   # noqa
            raised = True
        H.holds('a file cut inside its header is rejected with an exception', raised)


def _same_map(H, got, ph, nanset, shape, step, slack=None, unit=None):
    np = H.np
    m, n = shape
    H.shape_is('shape survives', got, (m, n))
    if tuple(np.shape(got)) != (m, n):
        return
    for i in range(m):
        for j in range(n):
            v = got[i, j]
            isn = bool(H.is_nan(v)) if H.mode == 'symbolic' else bool(np.isnan(v))
            if (i, j) in nanset:
                H.holds('invalid sample (%d,%d) stays invalid' % (i, j), isn)
            else:
                H.holds('valid sample (%d,%d) stays valid' % (i, j), not isn)
                if not isn:
                    w = ph[i, j]
                    H.value('read-back value (%d,%d)' % (i, j), v)
                    # one count of the int32 format, plus the float32 rounding of the header's wavelength (2e-7 relative, |h| <= 1e4 nm)
                    tol = step + (H.frac(2, 1000) if slack is None else slack)
                    if unit is not None:
                        # both sides divided by the (positive) amplitude of the map: keeps the obligation linear for the solver
                        v, w, tol = v / unit, w / unit, step / unit + slack
                    H.le('read(%d,%d) <= written + one quantisation step' % (i, j), v, w + tol)
                    H.le('read(%d,%d) >= written - one quantisation step' % (i, j), w - tol, v)
