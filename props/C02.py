"""C02 -- propagators conserve energy and invert each other."""
import math
from fractions import Fraction

ID = 'C02'
FILES = ['prysm/propagation.py', 'prysm/fttools.py']
FUNCTIONS = ['propagation.focus/unfocus', 'propagation.angular_spectrum/angular_spectrum_transfer_function',
             'fttools.pad2d', 'fttools.mdft.dft2/idft2', 'fttools.czt.czt2/iczt2', 'Wavefront.focus/unfocus/free_space']
STUBS = ['fft.fft2/ifft2 -> DFT by definition with exact roots of unity', 'np.exp(i x) -> unit phasor', 'np.sqrt exact']
EXPLANATION = ('Each propagator is run once on a fully symbolic complex input; its kernel A[(i,j),(k,l)] is read off (linearity is '
               'itself an obligation).  Energy conservation for every input is the operator identity A^H A = I, mutual inverses are '
               'B A = I, composition is A(z1) A(z2) = A(z1+z2): all are identities between sums of roots of unity and symbolic '
               'phasors (wavelength, sample spacing and distances are symbols), decided exactly.')
BOUNDS = {'quick': 'focus/unfocus: shapes [1..4]^2 x Q in {1,2,3} (padded size <= 36 samples); mdft/czt band-complete pairs (m,n)->(M,N) with m,n in 1..3, M in {m,m+1,2m}; angular spectrum shapes [1..3]^2, Q in {1,2}; thorough adds angular-spectrum arrays of length 13 (a non-fast FFT length), distances up to +-3e5 mm',
          'thorough': 'the quick set plus 5xN shapes (padded size <= 36), band kernels up to 100 entries, an angular-spectrum array of length 13 (not a fast FFT length), two more non-square fixed-sampling band round trips (larger sets did not finish in 70 minutes on 16 cores)'}
OUTSIDE = 'float rounding; the tf= pass-through argument of angular_spectrum; shapes beyond the bound'
NDERIVED = 16
MAX_PATHS = 8
CFG_TIMEOUT = {'quick': 900, 'thorough': 3600}


def configs(tier):
    q = tier == 'quick'
    out = []
    hi = 4 if q else 5
    cap = 36 if q else 36        # thorough sized for about half an hour on 16 cores (exact products of (m n) x (M N) kernels)
    for m in range(1, hi + 1):
        for n in range(1, hi + 1):
            for Q in (1, 2, 3):
                if m * Q * n * Q > cap:
                    continue
                out.append({'name': 'fft-%dx%d-Q%d' % (m, n, Q), 'kind': 'fft', 'in': [m, n], 'Q': Q})
    hi2 = 3
    for eng in ('mdft', 'czt'):
        for m in range(1, hi2 + 1):
            for n in range(1, hi2 + 1):
                for (M, N) in {(m, n), (m + 1, n), (m, n + 1), (2 * m, 2 * n), (m + 1, 2 * n)}:
                    if m * n * M * N > (81 if q else 100):
                        continue
                    out.append({'name': 'band-%s-%dx%d-%dx%d' % (eng, m, n, M, N), 'kind': 'band', 'engine': eng,
                                'in': [m, n], 'out': [M, N]})
    hi3 = 3 if q else 4
    for m in range(1, hi3 + 1):
        for n in range(1, hi3 + 1):
            for Q in (1, 2):
                if m * Q * n * Q > (16 if q else 16):
                    continue
                out.append({'name': 'as-%dx%d-Q%d' % (m, n, Q), 'kind': 'as', 'in': [m, n], 'Q': Q})
    # lengths that are not "fast" FFT lengths (a prime factor above 11): an implementation that transforms at a padded fast length and crops
    # differs only there
    for (m, n) in [] if q else [(1, 13)]:      # ~10 min: thorough tier only
        out.append({'name': 'as-%dx%d-Q1' % (m, n), 'kind': 'as', 'in': [m, n], 'Q': 1})
    # the complete band through the propagation-level routines with ONE output spacing: a non-square pupil gets a different Q per axis
    for meth in ('mdft', 'czt'):
        for (m, n, M) in [(2, 3, 3), (3, 2, 3)] + ([] if q else [(2, 4, 4), (3, 4, 4)]):
            out.append({'name': 'fixed-sampling-band-%s-%dx%d-%d' % (meth, m, n, M), 'kind': 'fixedband', 'method': meth, 'in': [m, n], 'M': M})
    out.append({'name': 'wavefront-wrappers', 'kind': 'wf'})
    return out


def params(cfg):
    if cfg['kind'] in ('as',):
        # wavelengths are microns and spacings millimetres: distances of the order of 10^5 mm are needed for phases of order one, and with them
        # for counterexamples that show above the replay tolerance
        return [('wvl', {'pos': True}), ('dx', {'pos': True}), ('z', {'lo': -300000, 'hi': 300000}), ('z1', {'lo': -300000, 'hi': 300000}),
                ('z2', {'lo': -300000, 'hi': 300000})]
    if cfg['kind'] == 'fixedband':
        return [('wvl', {'pos': True}), ('dx', {'pos': True}), ('efl', {'pos': True})]
    if cfg['kind'] == 'wf':
        return [('wvl', {'pos': True}), ('dx', {'pos': True}), ('efl', {'pos': True}), ('z', {})]
    return []


def flat(K, nin, nout):
    """kernel C[in..., out...] -> matrix [in_flat, out_flat] (object array)"""
    return K.reshape((nin, nout))


def mm(H, A, B):
    """(A B)[i,k] = sum_j A[i,j] B[j,k] on exact object arrays / complex arrays"""
    if H.mode == 'concrete':
        return A @ B
    return H.np.matmul(A, B)


def eye(H, n):
    if H.mode == 'concrete':
        return H.np.eye(n, dtype=complex)
    return H.np.eye(n)


def run(cfg, H):
    prop = H.mod('prysm.propagation')
    ft = H.mod('prysm.fttools')
    np = H.np
    kind = cfg['kind']
    if kind == 'fft':
        m, n = cfg['in']
        Q = cfg['Q']
        M, N = m * Q, n * Q
        Kf = flat(H.linear_map(lambda f: prop.focus(f, Q), (m, n)), m * n, M * N)
        Ku = flat(H.linear_map(lambda f: prop.unfocus(f, Q), (m, n), name='g'), m * n, M * N)
        # out = f_flat @ K  ->  energy: K K^H = I (on the input space)
        H.eq('focus conserves energy (K K^H = I)', mm(H, Kf, H.conj(Kf).T), eye(H, m * n))
        H.eq('unfocus conserves energy (K K^H = I)', mm(H, Ku, H.conj(Ku).T), eye(H, m * n))
        if Q == 1:
            H.eq('unfocus(focus(f)) == f', mm(H, Kf, Ku), eye(H, m * n))
            H.eq('focus(unfocus(f)) == f', mm(H, Ku, Kf), eye(H, m * n))
        else:
            # padded: focus then unfocus at Q=1 returns the padded field; its central crop is f
            KuM = flat(H.linear_map(lambda f: prop.unfocus(f, 1), (M, N), name='h'), M * N, M * N)
            back = mm(H, Kf, KuM).reshape((m, n, M, N))
            P = flat(H.linear_map(lambda f: ft.pad2d(f, Q), (m, n), name='p'), m * n, M * N)
            H.eq('unfocus(focus(f, Q), 1) == pad2d(f, Q)', back.reshape((m * n, M * N)), P)
            H.eq('zero padding only adds zeros (P P^T = I)', mm(H, P, H.conj(P).T), eye(H, m * n))
    elif kind == 'band':
        m, n = cfg['in']
        M, N = cfg['out']
        Qy, Qx = H.frac(M, m), H.frac(N, n)
        eng = ft.mdft if cfg['engine'] == 'mdft' else ft.czt
        fwd = (lambda f: eng.dft2(f, (Qy, Qx), (M, N))) if cfg['engine'] == 'mdft' else (lambda f: eng.czt2(f, (Qy, Qx), (M, N)))
        # the inverse call sees an input of M samples: the same physical sampling is Q' = Q*m/M per axis (the rule
        # unfocus_fixed_sampling applies), which is 1 on the complete band
        Qiy, Qix = Qy * m / M, Qx * n / N
        inv = (lambda f: eng.idft2(f, (Qiy, Qix), (m, n))) if cfg['engine'] == 'mdft' else (lambda f: eng.iczt2(f, (Qiy, Qix), (m, n)))
        Kf = flat(H.linear_map(fwd, (m, n)), m * n, M * N)
        Ki = flat(H.linear_map(inv, (M, N), name='g'), M * N, m * n)
        H.eq('inverse(forward(f)) == f on the complete band', mm(H, Kf, Ki), eye(H, m * n))
        H.eq('forward transform onto the complete band conserves energy', mm(H, Kf, H.conj(Kf).T), eye(H, m * n))
    elif kind == 'fixedband':
        m, n = cfg['in']
        M = cfg['M']
        wvl, dx, efl = H.param('wvl'), H.param('dx'), H.param('efl')
        odx = wvl * efl / (dx * M)           # M output samples of this spacing span exactly one period of the transform on both axes
        meth = cfg['method']
        Kf = flat(H.linear_map(lambda f: prop.focus_fixed_sampling(f, dx, efl, wvl, odx, (M, M), method=meth), (m, n)), m * n, M * M)
        Ki = flat(H.linear_map(lambda g: prop.unfocus_fixed_sampling(g, odx, efl, wvl, dx, (m, n), method=meth), (M, M), name='g'), M * M, m * n)
        H.eq('unfocus_fixed_sampling(focus_fixed_sampling(f)) == f on the complete band', mm(H, Kf, Ki), eye(H, m * n))
        H.eq('focus_fixed_sampling onto the complete band conserves energy', mm(H, Kf, H.conj(Kf).T), eye(H, m * n))
    elif kind == 'as':
        m, n = cfg['in']
        Q = cfg['Q']
        M, N = m * Q, n * Q
        wvl, dx = H.param('wvl'), H.param('dx')
        z, z1, z2 = H.param('z'), H.param('z1'), H.param('z2')
        tf = prop.angular_spectrum_transfer_function((M, N), wvl, dx, z)
        H.eq('|transfer function| == 1', H.abs2(H.asarray(tf)), 1 + 0 * H.abs2(H.asarray(tf)))
        Kz = flat(H.linear_map(lambda f: prop.angular_spectrum(f, wvl, dx, z, Q=Q), (m, n)), m * n, M * N)
        H.eq('free space conserves energy', mm(H, Kz, H.conj(Kz).T), eye(H, m * n))
        K0 = flat(H.linear_map(lambda f: prop.angular_spectrum(f, wvl, dx, 0 * z, Q=Q), (m, n), name='g'), m * n, M * N)
        P = flat(H.linear_map(lambda f: ft.pad2d(f, Q), (m, n), name='p'), m * n, M * N)
        H.eq('zero distance is the identity (on the padded grid)', K0, P)
        # second leg acts on the (M,N) grid without further padding
        Kneg = flat(H.linear_map(lambda f: prop.angular_spectrum(f, wvl, dx, -z, Q=1), (M, N), name='h'), M * N, M * N)
        H.eq('propagating by -z undoes propagating by z', mm(H, Kz, Kneg), P)
        K1 = flat(H.linear_map(lambda f: prop.angular_spectrum(f, wvl, dx, z1, Q=Q), (m, n), name='u'), m * n, M * N)
        K2 = flat(H.linear_map(lambda f: prop.angular_spectrum(f, wvl, dx, z2, Q=1), (M, N), name='v'), M * N, M * N)
        K12 = flat(H.linear_map(lambda f: prop.angular_spectrum(f, wvl, dx, z1 + z2, Q=Q), (m, n), name='w'), m * n, M * N)
        H.eq('distances compose additively', mm(H, K1, K2), K12)
    elif kind == 'wf':
        wvl, dx, efl, z = H.param('wvl'), H.param('dx'), H.param('efl'), H.param('z')
        f = H.carray('f', (2, 3))
        wf = prop.Wavefront(f, wvl, dx)
        foc = wf.focus(efl, Q=2)
        H.eq('Wavefront.focus == propagation.focus', foc.data, prop.focus(f, 2))
        back = foc.unfocus(efl, Q=1)
        H.eq('Wavefront.unfocus(focus) == padded field', back.data, ft.pad2d(f, 2))
        fs = wf.free_space(dz=z, Q=1)
        H.eq('Wavefront.free_space == angular_spectrum', fs.data, prop.angular_spectrum(f, wvl, dx, z, Q=1))
        H.eq('energy after Wavefront.focus', np.sum(H.abs2(foc.data)), np.sum(H.abs2(f)))
        H.eq('energy after Wavefront.free_space', np.sum(H.abs2(fs.data)), np.sum(H.abs2(f)))
