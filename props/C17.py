"""C17 -- thin-film and Fresnel coefficients conserve energy and agree with each other."""

ID = 'C17'
FILES = ['prysm/thinfilm.py']
FUNCTIONS = ['thinfilm.multilayer_stack_rt', 'characteristic_matrix_s/p', 'multilayer_matrix_s/p', 'rtot/ttot', 'snell_aor',
             'fresnel_rs/ts/rp/tp', 'brewsters_angle', 'critical_angle']
STUBS = ['np.lib.scimath.arcsin / np.arcsin -> angle atom with sin = z, cos = +sqrt(1-z^2)', 'np.arctan2 -> angle atom (cos, sin) = (x, y)/sqrt(x^2+y^2)',
         'np.cos/np.sin of a symbolic phase -> phasors; of an angle atom -> its (cos, sin)', 'np.sqrt -> sqrt atoms (d >= 0, d^2 = radicand)']
EXPLANATION = ('Indices, thicknesses, wavelength, ambient index and the angle of incidence (given by its half-angle tangent w in (0,1), so '
               'cos/sin are rational in w) are symbols; Snell angles are angle atoms; layer phases are phasors. r and t are quotients whose '
               'identities are decided by cross-multiplication. Energy conservation is decided in full for 1 and 2 layers and, for any number '
               'of layers, by an inductive step: every characteristic matrix preserves the flux form (M^H J M = J), and the outer assembly, given '
               'an ARBITRARY layer product P, satisfies 1 - R = T * Re(conj(E) H)/(n0 cos th0) with [E;H] = P [1; ns cos ths].')
BOUNDS = {'quick': 'full stacks of 1 and 2 layers (+substrate), both polarisations; inductive step for any layer count; batches of shape (2,) and (2,2)',
          'thorough': 'full stacks up to 3 layers for s polarisation; batches up to (2,3)'}
OUTSIDE = 'absorbing layers (complex indices; the R+T<=1 clause is not claimed); angles beyond the critical angle; float rounding'
NDERIVED = 40
MAX_PATHS = 8
CFG_TIMEOUT = {'quick': 900, 'thorough': 3600}


def configs(tier):
    q = tier == 'quick'
    out = []
    for pol in 'sp':
        for nl in ((1, 2) if q or pol == 'p' else (1, 2, 3)):
            out.append({'name': 'energy-%s-%dlayers' % (pol, nl), 'kind': 'energy', 'pol': pol, 'layers': nl})
        out.append({'name': 'layer-invariant-%s' % pol, 'kind': 'layer_inv', 'pol': pol})
        out.append({'name': 'assembly-%s' % pol, 'kind': 'assembly', 'pol': pol})
        out.append({'name': 'interface-%s' % pol, 'kind': 'interface', 'pol': pol})
        out.append({'name': 'absentee-%s' % pol, 'kind': 'absentee', 'pol': pol})
        for shp in ([(2,), (2, 2)] if q else [(2,), (2, 2), (2, 3)]):
            out.append({'name': 'batch-%s-%s' % (pol, 'x'.join(map(str, shp))), 'kind': 'batch', 'pol': pol, 'shape': list(shp)})
    out.append({'name': 'fresnel-energy', 'kind': 'fresnel'})
    out.append({'name': 'brewster', 'kind': 'brewster'})
    out.append({'name': 'angles', 'kind': 'angles'})
    return out


def params(cfg):
    ps = [('w', {'gt': 0, 'lt': 1}), ('n0', {'lo': 1}), ('wvl', {'pos': True})]
    k = cfg['kind']
    nl = {'energy': cfg.get('layers', 0) + 1, 'layer_inv': 1, 'interface': 1, 'absentee': 2, 'batch': 2}.get(k, 0)
    if k == 'batch':
        n = 1
        for s in cfg['shape']:
            n *= s
        for b in range(n):
            for j in range(2):
                ps += [('n%d_%d' % (j + 1, b), {'lo': 1}), ('d%d_%d' % (j + 1, b), {'nonneg': True})]
        return ps
    for j in range(nl):
        ps += [('n%d' % (j + 1), {'lo': 1}), ('d%d' % (j + 1), {'nonneg': True})]
    if k == 'assembly':
        ps += [('ns', {'lo': 1})]      # the arbitrary layer product P has content-level (polynomial) entries
    if k in ('fresnel', 'brewster', 'angles'):
        ps += [('n1', {'lo': 1})]
    return ps


def energy_identity(H, label, r, t, fac):
    """R + T*fac == 1.  r and t share the denominator A00 (r = A10/A00, t = 1/A00): on the symbolic side the identity is posed
    as |num_r|^2 + fac*|num_t|^2 == |A00|^2, which avoids squaring the common denominator."""
    if H.mode == 'symbolic':
        from symx.core import Qx
        from symx import symnp
        r, t = symnp._sx(r), symnp._sx(t)
        if isinstance(r, Qx) and isinstance(t, Qx) and (r.den - t.den).is_zero():
            H.eq(label, H.abs2(r.num) + fac * H.abs2(t.num), H.abs2(r.den), tv2=False)
            H.value(label + ' [r]', r)
            H.value(label + ' [t]', t)
            return
    H.eq(label, H.abs2(r) + H.abs2(t) * fac, 1)
    H.value(label + ' [r]', r)
    H.value(label + ' [t]', t)


def below_critical(H, n0, s0, n):
    """precondition: n0 sin(theta0) < n  (no total internal reflection in this layer)"""
    if H.mode == 'symbolic':
        H.assume(n0 * s0 < n, 'angle of incidence below the critical angle of every layer')


def run(cfg, H):
    tf = H.mod('prysm.thinfilm')
    np = H.np
    k = cfg['kind']
    n0, wvl = H.param('n0'), H.param('wvl')
    th0 = H.angle('w')
    aoi_deg = th0 * 180 / H.pi
    c0, s0 = H.cos(th0), H.sin(th0)
    pol = cfg.get('pol')
    if k == 'energy':
        nl = cfg['layers'] + 1           # the last entry of the stack is the exit medium (substrate)
        ns_ = [H.param('n%d' % (j + 1)) for j in range(nl)]
        ds = [H.param('d%d' % (j + 1)) for j in range(nl)]
        for n in ns_:
            below_critical(H, n0, s0, n)
        stack = [(n, d) for n, d in zip(ns_, ds)]
        r, t = tf.multilayer_stack_rt(stack, wvl, pol, aoi=aoi_deg, ambient_index=n0)
        cs = H.sqrt(1 - (n0 * s0 / ns_[-1]) ** 2)
        energy_identity(H, 'R + T * (ns cos ths)/(n0 cos th0) == 1', r, t, (ns_[-1] * cs) / (n0 * c0))
    elif k == 'layer_inv':
        n1, d1 = H.param('n1'), H.param('d1')
        below_critical(H, n0, s0, n1)
        th1 = tf.snell_aor(n0, n1, th0, degrees=False)
        fn = tf.characteristic_matrix_s if pol == 's' else tf.characteristic_matrix_p
        M = H.asarray(fn(wvl, d1, n1, th1))
        J = H.asarray([[0, 1], [1, 0]])
        MH = H.conj(M).T
        H.eq('characteristic matrix preserves the flux form: M^H J M == J', MH @ J @ M, J + 0 * M)
        # determinant one
        H.eq('det M == 1', M[0, 0] * M[1, 1] - M[0, 1] * M[1, 0], 1)
        M0 = H.asarray(fn(wvl, 0 * d1, n1, th1))
        H.eq('zero thickness layer is the identity matrix', M0, H.asarray([[1, 0], [0, 1]]) + 0 * M0)
    elif k == 'assembly':
        ns = H.param('ns')
        below_critical(H, n0, s0, ns)
        ths = tf.snell_aor(n0, ns, th0, degrees=False)
        P = H.zeros((2, 2))
        for i in range(4):
            P[i // 2, i % 2] = H.content('Pr%d' % i) + H.j * H.content('Pi%d' % i)
        fn = tf.multilayer_matrix_s if pol == 's' else tf.multilayer_matrix_p
        A = fn(n0, th0, [P], ns, ths)
        r, t = tf.rtot(A), tf.ttot(A)
        cs = H.cos(ths)
        # field vector at the first interface produced by the layer product acting on the exit-medium vector
        if pol == 's':
            E = P[0, 0] * 1 + P[0, 1] * (ns * cs)
            Hh = P[1, 0] * 1 + P[1, 1] * (ns * cs)
            flux = H.real(H.conj(E) * Hh) / (n0 * c0)
        else:
            E = P[0, 0] * cs + P[0, 1] * ns
            Hh = P[1, 0] * cs + P[1, 1] * ns
            flux = H.real(H.conj(E) * Hh) / (n0 * c0)
        energy_identity(H, 'outer assembly: 1 - R == T * Re(conj(E) H)/(n0 cos th0) for an arbitrary layer product', r, t, flux)
    elif k == 'interface':
        n1, d1 = H.param('n1'), H.param('d1')
        below_critical(H, n0, s0, n1)
        r, t = tf.multilayer_stack_rt([(n1, 0 * d1)], wvl, pol, aoi=aoi_deg, ambient_index=n0)
        th1 = tf.snell_aor(n0, n1, th0, degrees=False)
        fr = (tf.fresnel_rs if pol == 's' else tf.fresnel_rp)(n0, n1, th0, th1)
        ftt = (tf.fresnel_ts if pol == 's' else tf.fresnel_tp)(n0, n1, th0, th1)
        H.eq('one-layer stack with d=0: r == fresnel_r%s' % pol, r, fr)
        H.eq('one-layer stack with d=0: t == fresnel_t%s' % pol, t, ftt)
    elif k == 'absentee':
        n1, d1, n2, d2 = H.param('n1'), H.param('d1'), H.param('n2'), H.param('d2')
        below_critical(H, n0, s0, n1)
        below_critical(H, n0, s0, n2)
        r, t = tf.multilayer_stack_rt([(n1, d1), (n2, d2)], wvl, pol, aoi=aoi_deg, ambient_index=n0)
        # inserting a zero-thickness layer of any index changes nothing
        r0, t0 = tf.multilayer_stack_rt([(n1, d1), (n2 + 1, 0 * d1), (n2, d2)], wvl, pol, aoi=aoi_deg, ambient_index=n0)
        H.eq('zero-thickness layer: r unchanged', r0, r)
        H.eq('zero-thickness layer: t unchanged', t0, t)
        # half-wave absentee layer: d = lambda/(2 n cos theta)  ->  beta = pi
        c1 = H.sqrt(1 - (n0 * s0 / n1) ** 2)
        dh = wvl / (2 * n1 * c1)
        rh, th_ = tf.multilayer_stack_rt([(n1, dh), (n2, d2)], wvl, pol, aoi=aoi_deg, ambient_index=n0)
        rb, tb = tf.multilayer_stack_rt([(n2, d2)], wvl, pol, aoi=aoi_deg, ambient_index=n0)
        H.eq('half-wave absentee layer: R unchanged', H.abs2(rh), H.abs2(rb))
        H.eq('half-wave absentee layer: T unchanged', H.abs2(th_), H.abs2(tb))
    elif k == 'batch':
        shp = tuple(cfg['shape'])
        n = 1
        for s in shp:
            n *= s
        n1 = H.asarray([H.param('n1_%d' % b) for b in range(n)]).reshape(shp)
        d1 = H.asarray([H.param('d1_%d' % b) for b in range(n)]).reshape(shp)
        n2 = H.asarray([H.param('n2_%d' % b) for b in range(n)]).reshape(shp)
        d2 = H.asarray([H.param('d2_%d' % b) for b in range(n)]).reshape(shp)
        for b in range(n):
            below_critical(H, n0, s0, H.param('n1_%d' % b))
            below_critical(H, n0, s0, H.param('n2_%d' % b))
        stack = H.asarray([[n1, d1], [n2, d2]])
        r, t = tf.multilayer_stack_rt(stack, wvl, pol, aoi=aoi_deg, ambient_index=n0)
        H.shape_is('batched r shape', r, shp)
        rf, tff = H.asarray(r).reshape((n,)), H.asarray(t).reshape((n,))
        for b in range(n):
            r1, t1 = tf.multilayer_stack_rt([(H.param('n1_%d' % b), H.param('d1_%d' % b)), (H.param('n2_%d' % b), H.param('d2_%d' % b))],
                                            wvl, pol, aoi=aoi_deg, ambient_index=n0)
            H.eq('batched r == element %d' % b, rf[b], r1)
            H.eq('batched t == element %d' % b, tff[b], t1)
    elif k == 'fresnel':
        n1 = H.param('n1')
        below_critical(H, n0, s0, n1)
        th1 = tf.snell_aor(n0, n1, th0, degrees=False)
        c1 = H.cos(th1)
        fac = (n1 * c1) / (n0 * c0)
        for p in 'sp':
            r = getattr(tf, 'fresnel_r' + p)(n0, n1, th0, th1)
            t = getattr(tf, 'fresnel_t' + p)(n0, n1, th0, th1)
            H.eq('fresnel %s: r^2 + t^2 (n1 cos th1)/(n0 cos th0) == 1' % p, r * r + t * t * fac, 1)
        H.eq('snell: n0 sin th0 == n1 sin th1', n0 * s0, n1 * H.sin(th1))
    elif k == 'brewster':
        n1 = H.param('n1')
        thb = tf.brewsters_angle(n0, n1, deg=False)
        sb = H.sin(thb)
        if H.mode == 'symbolic':
            H.assume(n0 * sb < n1, 'Brewster angle below the critical angle')
        th1 = tf.snell_aor(n0, n1, thb, degrees=False)
        H.eq("fresnel_rp vanishes at Brewster's angle", tf.fresnel_rp(n0, n1, thb, th1), 0)
        H.eq('tan(brewster) == n1/n0', sb * n0, H.cos(thb) * n1)
        thbd = tf.brewsters_angle(n0, n1, deg=True)
        H.eq('brewsters_angle(deg=True) is the same angle in degrees', thbd * H.pi / 180, thb)
    elif k == 'angles':
        n1 = H.param('n1')
        if H.mode == 'symbolic':
            H.assume(n1 < n0, 'critical angle exists: n1 < n0 (call is critical_angle(n1, n0))')
        elif not (H.param('n1') < H.param('n0')):
            return
        ca = tf.critical_angle(n1, n0, deg=False)
        H.eq('sin(critical angle) == n1/n0', H.sin(ca), n1 / n0)
        cad = tf.critical_angle(n1, n0, deg=True)
        H.eq('critical_angle(deg=True)', cad * H.pi / 180, ca)
        th1 = tf.snell_aor(n0, n0 + n1, th0, degrees=False)
        H.eq('snell_aor: sin th1 == n0/n1 sin th0', H.sin(th1), n0 / (n0 + n1) * s0)
        th1d = tf.snell_aor(n0, n0 + n1, aoi_deg, degrees=True)
        H.eq('snell_aor(degrees=True)', H.sin(th1d), H.sin(th1))
