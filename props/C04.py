"""C04 -- one origin convention: sample n//2 is zero for every grid, pad, crop, metric."""

ID = 'C04'
FILES = ['prysm/fttools.py', 'prysm/coordinates.py', 'prysm/_richdata.py', 'prysm/psf.py', 'prysm/propagation.py']
FUNCTIONS = ['fttools.fftrange', 'fttools.pad2d', 'fttools.crop_center', 'fttools.forward_ft_unit', 'fttools.fftfreq',
             'coordinates.make_xy_grid', 'RichData.x/.y/.slices', '_richdata.Slices.x/.y', 'psf.centroid',
             'propagation.Wavefront.pad2d/crop', 'propagation.focus/unfocus (origin samples of the FFT route)']
STUBS = ['np.pad -> numpy on exact object arrays', 'ndimage.center_of_mass -> definition (first moments / total)',
         'fft.fftfreq/fftshift -> definitions']
EXPLANATION = ('Arrays have independent symbolic entries, dx / fill value / diameter are symbolic; every (input length, output '
               'length) pair in the bound is enumerated per axis so that all parity combinations, growing and shrinking, occur. '
               'Obligations: the origin sample (index n//2) lands on index N//2, every other sample keeps its offset, the rest is '
               'the fill value; crop undoes pad; grids and frequency axes are exactly zero at n//2; slices pass through the '
               'origin sample; a point source k samples from the origin is reported at k*dx.')
BOUNDS = {'quick': 'axis lengths 1..6 (pad/crop: all (n,N) pairs per axis, 2-D shapes pairing every row case with a column case); centroid images up to 5x4; FFT-route origin obligations on 10 shape/Q combinations up to 5x5',
          'thorough': 'axis lengths 1..10; centroid images up to 7x6; FFT-route origin up to 7x7'}
OUTSIDE = 'axis lengths above the bound (the size-symbolic layer sketched in DESIGN.md 2.3-S is not built); sizes >= 2^53'
MAX_PATHS = 64
NDERIVED = 8


def configs(tier):
    q = tier == 'quick'
    hi = 6 if q else 10
    out = []
    out.append({'name': 'fftrange', 'kind': 'fftrange', 'hi': hi * 2})
    pairs = [(n, N) for n in range(1, hi + 1) for N in range(n, hi + 1)]
    # 2-D: pair the i-th row case with a rotating column case so every (n,N) occurs on both axes
    for i, (n0, N0) in enumerate(pairs):
        n1, N1 = pairs[(i * 7 + 3) % len(pairs)]
        for mode in ('constant', 'constant-value', 'edge') if (q and i % 3 == 0) or not q else ('constant',):
            out.append({'name': 'pad-%dx%d-%dx%d-%s' % (n0, n1, N0, N1, mode), 'kind': 'pad', 'in': [n0, n1], 'out': [N0, N1],
                        'mode': mode})
        out.append({'name': 'crop-%dx%d-%dx%d' % (N0, N1, n0, n1), 'kind': 'crop', 'in': [N0, N1], 'out': [n0, n1]})
    for n in range(1, hi + 1):
        out.append({'name': 'padQ-%d' % n, 'kind': 'padQ', 'n': n})
    for n0 in range(1, hi + 1):
        n1 = (n0 * 3) % hi + 1
        out.append({'name': 'grid-%dx%d' % (n0, n1), 'kind': 'grid', 'shape': [n0, n1]})
        out.append({'name': 'slices-%dx%d' % (n0, n1), 'kind': 'slices', 'shape': [n0, n1]})
    # (per-axis different n//2: 2x4, 5x2, 1x4, 6x3)
    cs = [(1, 1), (2, 2), (3, 3), (2, 3), (3, 2), (4, 4), (5, 4), (4, 5), (2, 4), (5, 2), (1, 4), (6, 3)] + ([] if q else [(6, 6), (7, 6), (5, 5), (6, 7)])
    for (a, b) in cs:
        out.append({'name': 'centroid-point-%dx%d' % (a, b), 'kind': 'centroid_point', 'shape': [a, b]})
    # the FFT propagation route shares the convention: output sample N//2 is zero frequency, input sample n//2 is the origin
    for (a, b, Q) in [(1, 1, 1), (2, 3, 1), (3, 2, 1), (3, 3, 1), (4, 5, 1), (5, 4, 1), (5, 5, 1), (3, 3, 2), (3, 2, 3), (1, 5, 3)] + \
            ([] if q else [(6, 7, 1), (7, 7, 1), (3, 5, 3), (5, 3, 2)]):
        out.append({'name': 'fft-origin-%dx%d-Q%d' % (a, b, Q), 'kind': 'fft_origin', 'shape': [a, b], 'Q': Q})
    # ... and so do both fixed-sampling routes, for every parity combination of input and output lengths
    for meth in ('mdft', 'czt'):
        for (a, b, A, B) in [(2, 3, 3, 2), (2, 2, 3, 3), (3, 3, 2, 2), (4, 2, 3, 5)] + ([] if q else [(4, 4, 5, 3), (3, 5, 4, 2), (2, 4, 5, 5)]):
            out.append({'name': 'fixed-origin-%s-%dx%d-%dx%d' % (meth, a, b, A, B), 'kind': 'fixed_origin', 'method': meth, 'shape': [a, b], 'out': [A, B]})
    for (a, b) in [(1, 2), (2, 2), (2, 3), (3, 2)] + ([] if q else [(3, 3)]):
        out.append({'name': 'centroid-weights-%dx%d' % (a, b), 'kind': 'centroid_w', 'shape': [a, b]})
    return out


def params(cfg):
    k = cfg['kind']
    if k == 'pad' and cfg['mode'] == 'constant-value':
        return [('value', {})]
    if k in ('grid', 'slices', 'centroid_point'):
        return [('dx', {'pos': True}), ('dia', {'pos': True})]
    if k == 'fixed_origin':
        return [('dx', {'pos': True}), ('wvl', {'pos': True}), ('efl', {'pos': True}), ('odx', {'pos': True})]
    if k == 'centroid_w':
        a, b = cfg['shape']
        return [('dx', {'pos': True})] + [('w_%d_%d' % (i, j), {'pos': True}) for i in range(a) for j in range(b)]
    return []


def run(cfg, H):
    ft = H.mod('prysm.fttools')
    k = cfg['kind']
    np = H.np
    if k == 'fftrange':
        for n in range(1, cfg['hi'] + 1):
            r = ft.fftrange(n)
            H.shape_is('fftrange(%d) length' % n, r, (n,))
            H.eq('fftrange(%d)' % n, r, H.asarray([i - n // 2 for i in range(n)]))
    elif k in ('pad', 'crop', 'padQ'):
        if k == 'padQ':
            n = cfg['n']
            a = H.rarray('a', (n, n))
            for Q in (2, 3):
                out = ft.pad2d(a, Q=Q)
                _placement(H, 'pad2d Q=%d' % Q, a, out, (n * Q, n * Q), fill=0)
                back = ft.crop_center(out, (n, n))
                H.eq('crop(pad(a, Q=%d)) == a' % Q, back, a)
            return
        shp_in, shp_out = tuple(cfg['in']), tuple(cfg['out'])
        a = H.rarray('a', shp_in)
        if k == 'pad':
            mode = cfg['mode']
            if mode == 'constant':
                out = ft.pad2d(a, out_shape=shp_out)
                _placement(H, 'pad2d', a, out, shp_out, fill=0)
            elif mode == 'constant-value':
                v = H.param('value')
                out = ft.pad2d(a, out_shape=shp_out, value=v)
                _placement(H, 'pad2d(value)', a, out, shp_out, fill=v)
            else:
                out = ft.pad2d(a, out_shape=shp_out, mode=mode)
                _placement(H, 'pad2d(mode=%s)' % mode, a, out, shp_out, fill=None)
            back = ft.crop_center(out, shp_in)
            H.eq('crop(pad(a)) == a', back, a)
            wfm = H.mod('prysm.propagation')
            wf = wfm.Wavefront(a, 1, 1)
            wf2 = wf.pad2d(Q=1, out_shape=shp_out, inplace=False)
            H.eq('Wavefront.pad2d == pad2d', wf2.data, ft.pad2d(a, out_shape=shp_out))
        else:
            out = ft.crop_center(a, shp_out)
            H.shape_is('crop shape', out, shp_out)
            ref = H.zeros(shp_out, complex_=False)
            for idx in _ndindex(shp_out):
                src = tuple(ni // 2 + (j - no // 2) for j, ni, no in zip(idx, shp_in, shp_out))
                ref[idx] = a[src]
            H.eq('crop keeps the origin sample at out//2', out, ref)
            wfm = H.mod('prysm.propagation')
            wf = wfm.Wavefront(a, 1, 1).crop(shp_out, inplace=False)
            H.eq('Wavefront.crop == crop_center', wf.data, out)
    elif k == 'grid':
        co = H.mod('prysm.coordinates')
        shp = tuple(cfg['shape'])
        dx, dia = H.param('dx'), H.param('dia')
        x, y = co.make_xy_grid(shp, dx=dx)
        H.shape_is('grid shape', x, shp)
        refx = H.zeros(shp, complex_=False)
        refy = H.zeros(shp, complex_=False)
        for i in range(shp[0]):
            for j in range(shp[1]):
                refx[i, j] = (j - shp[1] // 2) * dx
                refy[i, j] = (i - shp[0] // 2) * dx
        H.eq('make_xy_grid(dx) x', x, refx)
        H.eq('make_xy_grid(dx) y', y, refy)
        x2, y2 = co.make_xy_grid(shp, diameter=dia)
        H.eq('make_xy_grid(diameter) x', x2, refx * (dia / max(shp)) / dx)
        H.eq('make_xy_grid(diameter) y', y2, refy * (dia / max(shp)) / dx)
        for n in shp:
            fx = ft.forward_ft_unit(dx, n)
            H.eq('forward_ft_unit(%d)' % n, fx, H.asarray([(i - n // 2) / (n * dx) for i in range(n)]))
            fx0 = ft.forward_ft_unit(dx, n, shift=False)
            H.eq('forward_ft_unit(%d, shift=False)[0] == 0' % n, fx0[0], 0)
        rd = H.mod('prysm._richdata').RichData(H.rarray('d', shp), dx, 1)
        H.eq('RichData.x', rd.x, refx)
        H.eq('RichData.y', rd.y, refy)
    elif k == 'slices':
        shp = tuple(cfg['shape'])
        dx = H.param('dx')
        d = H.rarray('d', shp)
        rd = H.mod('prysm._richdata').RichData(d, dx, 1)
        for two in (True, False):
            s = rd.slices(twosided=two)
            ux, vx = s.x
            uy, vy = s.y
            cy, cx = shp[0] // 2, shp[1] // 2
            if two:
                H.eq('slice x (two-sided) passes through the origin row', vx, d[cy, :])
                H.eq('slice y (two-sided) passes through the origin column', vy, d[:, cx])
                H.eq('slice x coordinates', ux, H.asarray([(j - cx) * dx for j in range(shp[1])]))
            else:
                H.eq('slice x (one-sided) starts at the origin sample', vx, d[cy, cx:])
                H.eq('slice y (one-sided) starts at the origin sample', vy, d[cy:, cx])
                H.eq('slice x coordinate starts at 0', ux[0], 0)
                H.eq('slice y coordinate starts at 0', uy[0], 0)
    elif k == 'centroid_point':
        psf = H.mod('prysm.psf')
        shp = tuple(cfg['shape'])
        dx = H.param('dx')
        for i0 in range(shp[0]):
            for j0 in range(shp[1]):
                img = H.zeros(shp, complex_=False)
                img[i0, j0] = 1
                cy, cx = psf.centroid(img, dx)
                H.eq('centroid of a point at (%d,%d)' % (i0, j0), H.asarray([cy, cx]),
                     H.asarray([(i0 - shp[0] // 2) * dx, (j0 - shp[1] // 2) * dx]))
    elif k == 'fixed_origin':
        prop = H.mod('prysm.propagation')
        np = H.np
        m, n = cfg['shape']
        M, N = cfg['out']
        dx, wvl, efl, odx = H.param('dx'), H.param('wvl'), H.param('efl'), H.param('odx')
        for nm_, fn in (('focus_fixed_sampling', prop.focus_fixed_sampling), ('unfocus_fixed_sampling', prop.unfocus_fixed_sampling)):
            K = np.asarray(H.linear_map(lambda f: fn(f, dx, efl, wvl, odx, (M, N), method=cfg['method']), (m, n), name=nm_[0])).reshape(m, n, M, N)
            c = K[m // 2, n // 2, M // 2, N // 2]
            H.eq('%s: output sample N//2 is the zero-frequency one (same weight for every input sample)' % nm_,
                 K[:, :, M // 2, N // 2], c + 0 * K[:, :, M // 2, N // 2])
            H.eq('%s: the input origin sample n//2 contributes equally to every output sample' % nm_,
                 K[m // 2, n // 2], c + 0 * K[m // 2, n // 2])
    elif k == 'fft_origin':
        prop = H.mod('prysm.propagation')
        np = H.np
        m, n = cfg['shape']
        Q = cfg['Q']
        M, N = m * Q, n * Q
        for nm_, fn in (('focus', prop.focus), ('unfocus', prop.unfocus)):
            K = np.asarray(H.linear_map(lambda f: fn(f, Q), (m, n), name=nm_[0])).reshape(m, n, M, N)
            c = K[m // 2, n // 2, M // 2, N // 2]
            H.eq('%s: output sample N//2 is the zero-frequency one (same weight for every input sample)' % nm_,
                 K[:, :, M // 2, N // 2], c + 0 * K[:, :, M // 2, N // 2])
            H.eq('%s: the input origin sample n//2 contributes equally to every output sample' % nm_,
                 K[m // 2, n // 2], c + 0 * K[m // 2, n // 2])
    elif k == 'centroid_w':
        psf = H.mod('prysm.psf')
        a, b = cfg['shape']
        dx = H.param('dx')
        img = H.zeros((a, b), complex_=False)
        tot = 0
        my = 0
        mx = 0
        for i in range(a):
            for j in range(b):
                w = H.param('w_%d_%d' % (i, j))
                img[i, j] = w
                tot = tot + w
                my = my + w * (i - a // 2)
                mx = mx + w * (j - b // 2)
        cy, cx = psf.centroid(img, dx)
        H.eq('centroid of a weighted image', H.asarray([cy, cx]), H.asarray([my / tot * dx, mx / tot * dx]))


def _ndindex(shape):
    import itertools
    return itertools.product(*[range(s) for s in shape])


def _placement(H, label, a, out, shp_out, fill):
    shp_in = tuple(H.np.shape(a))
    H.shape_is(label + ' shape', out, shp_out)
    if tuple(H.np.shape(out)) != tuple(shp_out):
        return
    ref = H.zeros(shp_out, complex_=False)
    inside = H.np.zeros(shp_out, dtype=bool) if H.mode == 'concrete' else None
    got_in = []
    want_in = []
    got_out = []
    want_out = []
    for idx in _ndindex(shp_out):
        src = tuple(ni // 2 + (j - no // 2) for j, ni, no in zip(idx, shp_in, shp_out))
        if all(0 <= s < n for s, n in zip(src, shp_in)):
            got_in.append(out[idx])
            want_in.append(a[src])
        elif fill is not None:
            got_out.append(out[idx])
            want_out.append(fill + 0 * a[(0,) * len(shp_in)])
    H.eq(label + ': sample at n//2 + k lands on N//2 + k', H.asarray(got_in), H.asarray(want_in))
    if got_out:
        H.eq(label + ': everything else is the fill value', H.asarray(got_out), H.asarray(want_out))
