"""C07 -- polynomial bases equal their mathematical definitions and are orthogonal."""
from math import factorial, comb

ID = 'C07'
FILES = ['prysm/polynomials/jacobi.py', 'prysm/polynomials/cheby.py', 'prysm/polynomials/legendre.py',
         'prysm/polynomials/hermite.py', 'prysm/polynomials/laguerre.py', 'prysm/polynomials/dickson.py',
         'prysm/polynomials/zernike.py', 'prysm/polynomials/qpoly.py', 'prysm/polynomials/xy.py',
         'prysm/polynomials/__init__.py', 'prysm/mathops.py']
FUNCTIONS = ['polynomials.jacobi.jacobi/jacobi_seq/recurrence_abc', 'polynomials.*_seq (legendre, cheby1-4, hermite_He/H, laguerre, dickson1/2)', 'polynomials.legendre.legendre', 'polynomials.cheby.cheby1..4',
             'polynomials.hermite.hermite_He/hermite_H', 'polynomials.laguerre.laguerre', 'polynomials.dickson.dickson1/2',
             'polynomials.zernike.zernike_nm/zernike_norm', 'polynomials.qpoly.Qbfs/Qcon/Q2d (+f,g,h,F,G,abc tables)',
             'polynomials.xy.xy', 'polynomials.hopkins', 'mathops.kronecker/gamma/sign']
STUBS = ['np.sqrt -> exact square root with sqrt atoms (d>=0, d^2=radicand)', 'np.cos/np.sin -> unit phasors with exact group law',
         'scipy.special.factorial/factorial2 -> real scipy on concrete integers']
EXPLANATION = ('Each family routine is executed on a symbolic evaluation point and symbolic shape parameters and compared '
               'with the textbook definition written independently of any recurrence (explicit finite sums, trigonometric '
               'definitions via x=(z+1/z)/2, functional definitions for Dickson); orthogonality is decided with exact moment '
               'functionals applied to the symbolic polynomials.')
BOUNDS = {'quick': 'jacobi n<=8 (alpha,beta symbolic); one-parameter families n<=14; sequence forms on 5 dense/sparse order lists up to n=5 (6 lists up to n=8 thorough); zernike n<=6 (values), Gram n<=5; Qbfs/Qcon n<=5, Q2d n<=6 for |m|=1, n<=3 for |m| in {2,3}; three-term recurrence coefficients n<=3 (alpha, beta symbolic, special branches explored)',
          'thorough': 'jacobi n<=12; one-parameter families n<=24; zernike n<=10, Gram n<=7; Qbfs/Qcon n<=8; Q2d n<=8 for |m|=1, n<=5 for |m|<=4; recurrence n<=6'}
OUTSIDE = 'orders above the bound; floating-point stability of the recurrences; Q2d normalisation constant is only required to be order-independent'
NDERIVED = 40
MAX_PATHS = 8


def configs(tier):
    q = tier == 'quick'
    out = []
    for n in range(0, (8 if q else 12) + 1):
        out.append({'name': 'jacobi-n%d' % n, 'family': 'jacobi', 'n': n})
    n1 = 14 if q else 24
    for fam in ('legendre', 'cheby1', 'cheby2', 'cheby3', 'cheby4', 'hermite_He', 'hermite_H', 'laguerre',
                'dickson1', 'dickson2'):
        step = 1 if q else 1
        for n in range(0, n1 + 1, step):
            out.append({'name': '%s-n%d' % (fam, n), 'family': fam, 'n': n})
    # the sequence forms against the same definitions, dense and sparse order lists (a recurrence that only advances when an order is
    # emitted, or that restarts wrongly after its unrolled low orders, shows on lists with gaps)
    N = 5 if q else 8
    lists = [list(range(N + 1)), [N], [0, 1, N], [1, 3, N], [3, N - 1, N], [0, 2, 4]]
    for fam in ('jacobi', 'legendre', 'cheby1', 'cheby2', 'cheby3', 'cheby4', 'hermite_He', 'hermite_H', 'laguerre', 'dickson1', 'dickson2'):
        for li, ns in enumerate(lists if not q else lists[:5]):
            out.append({'name': '%s-seq-%s' % (fam, '_'.join(map(str, ns))), 'family': fam, 'orders': ns})
    # the three-term recurrence coefficients themselves, including the hand-written n = 0 branch for alpha + beta in {0, -1} (the explorer
    # follows the equalities on the symbolic alpha, beta)
    for n in range(0, 4 if q else 7):
        out.append({'name': 'jacobi-recurrence-n%d' % n, 'family': 'jacobi_rec', 'n': n})
    # the weight function under which the Jacobi family is orthogonal, at integer and half-integer (alpha, beta) with alpha != beta
    for (al, be) in [('2', '1'), ('0', '3'), ('1/2', '-1/2'), ('-1/2', '1/2'), ('3/2', '1')]:
        out.append({'name': 'jacobi-weight-%s-%s' % (al, be), 'family': 'jacobi_weight', 'alpha': al, 'beta': be})
    zn = 6 if q else 10
    for n in range(0, zn + 1):
        for m in range(-n, n + 1, 2):
            for norm in (True, False):
                out.append({'name': 'zernike-n%d-m%d-%s' % (n, m, 'norm' if norm else 'raw'), 'family': 'zernike',
                            'n': n, 'm': m, 'norm': norm})
    out.append({'name': 'zernike-gram', 'family': 'zernike_gram', 'nmax': 5 if q else 7})
    for n in range(0, (5 if q else 8) + 1):
        out.append({'name': 'qcon-n%d' % n, 'family': 'qcon', 'n': n})
    out.append({'name': 'qbfs-gram', 'family': 'qbfs_gram', 'nmax': 5 if q else 8})
    for m in range(1, (3 if q else 4) + 1):
        # |m| == 1 has hand-written low orders (n <= 3) before its recurrence starts: the bound must go past them
        out.append({'name': 'q2d-gram-m%d' % m, 'family': 'q2d_gram', 'm': m, 'nmax': (6 if m == 1 else 3) if q else (8 if m == 1 else 5)})
    out.append({'name': 'zernike-seq-def', 'family': 'zernike_seq_def', 'nmax': 4 if q else 6})
    for (m, n) in [(0, 0), (1, 0), (0, 1), (2, 3), (3, 1), (4, 4)]:
        out.append({'name': 'xy-%d-%d' % (m, n), 'family': 'xy', 'm': m, 'n': n})
    for (a, b, c) in [(0, 2, 0), (1, 1, 1), (-1, 3, 1), (2, 2, 2), (-2, 2, 2), (0, 4, 0), (3, 3, 3)]:
        out.append({'name': 'hopkins-%d-%d-%d' % (a, b, c), 'family': 'hopkins', 'a': a, 'b': b, 'c': c})
    return out


def params(cfg):
    fam = cfg['family']
    if fam in ('jacobi', 'jacobi_rec'):
        return [('alpha', {'gt': -1}), ('beta', {'gt': -1})]
    if fam == 'jacobi_weight':
        return [('xw', {'gt': -1, 'lt': 1})]
    if fam in ('cheby1', 'cheby2', 'cheby3', 'cheby4'):
        return [('theta', {'gt': 0, 'lt': 3})]
    if fam == 'laguerre':
        return [('alpha', {'gt': -1})]
    if fam in ('dickson1', 'dickson2'):
        return [('alpha', {}), ('u', {'pos': True})]
    if fam in ('zernike', 'zernike_gram', 'zernike_seq_def', 'q2d_gram', 'hopkins'):
        return [('t', {})]
    return []


def gbinom(H, z, k):
    """generalised binomial C(z, k), polynomial in z"""
    r = H.frac(1)
    for i in range(k):
        r = r * (z - i)
    return r * H.frac(1, factorial(k))


def dfact(k):
    r = 1
    while k > 1:
        r *= k
        k -= 2
    return r


# ---- dual-mode integration functionals -------------------------------------------------------

def cheb_weighted_mean_even(H, f, maxdeg):
    """(2/pi) * int_0^1 f(u) (1-u^2)^(-1/2) du   for an EVEN polynomial f of degree <= maxdeg."""
    if H.mode == 'symbolic':
        from symx.symh import moment_functional
        u = H.content('u')
        expr = f(u)

        def mom(k):
            if k % 2:
                raise ValueError('odd power in an even integrand')
            return H.frac(dfact(k - 1), dfact(k))
        return moment_functional(expr, 'u', mom)
    np = H.np
    N = maxdeg // 2 + 2
    nodes = np.cos((2 * np.arange(1, N + 1) - 1) * np.pi / (2 * N))
    vals = f(nodes)
    return float(np.sum(vals) / N)      # (2/pi) * (1/2) * (pi/N) * sum


def disk_mean(H, f, maxdeg, maxharm):
    """(1/pi) int_0^{2pi} int_0^1 f(r,t) r dr dt for a polynomial in r (degree<=maxdeg) with harmonics <= maxharm in t."""
    if H.mode == 'symbolic':
        from symx.symh import moment_functional, angular_mean
        r = H.content('r')
        t = H.param('t')
        expr = angular_mean(f(r, t), 't')
        return moment_functional(expr, 'r', lambda k: H.frac(2, k + 2))
    np = H.np
    nt = 2 * maxharm + 3
    ts = np.arange(nt) * (2 * np.pi / nt)
    xs, ws = np.polynomial.legendre.leggauss(maxdeg // 2 + 2)
    rs = (xs + 1) / 2
    ws = ws / 2
    R, T = np.meshgrid(rs, ts)
    vals = f(R, T) * R
    return float(2 * np.sum(vals * ws[np.newaxis, :]) / nt)


# ---- the harness -------------------------------------------------------------------------------

def run(cfg, H):
    fam = cfg['family']
    n = cfg.get('n')
    P = H.mod('prysm.polynomials')
    half = H.frac(1, 2)
    if fam in SCALAR_FAMILIES:
        env = family_env(H, fam)
        if 'orders' in cfg:
            outs = family_call(P, fam + '_seq', cfg['orders'], env)
            H.holds('%s_seq returns one array per requested order' % fam, len(list(outs)) == len(cfg['orders']))
            for nn, out in zip(cfg['orders'], outs):
                family_compare(H, fam, nn, out, env, '%s_seq[n=%d]' % (fam, nn))
        else:
            family_compare(H, fam, n, family_call(P, fam, n, env), env, fam)
    elif fam == 'jacobi_weight':
        from fractions import Fraction as _F
        al, be = _F(cfg['alpha']), _F(cfg['beta'])
        x = H.param('xw')
        jac = H.mod('prysm.polynomials.jacobi')
        got = jac.weight(H.frac(al.numerator, al.denominator), H.frac(be.numerator, be.denominator), H.asarray([x]))

        def hpow(base, e):      # base ** e for e a multiple of 1/2, base > 0
            r = H.sqrt(base) if e.denominator == 2 else 1
            k_ = int(e - _F(1, 2)) if e.denominator == 2 else int(e)
            return r * base ** k_ if k_ >= 0 else r / base ** (-k_)
        H.eq('weight(alpha, beta, x) == (1 - x)^alpha (1 + x)^beta', got[0], hpow(1 - x, al) * hpow(1 + x, be))
    elif fam == 'jacobi_rec':
        a, b = H.param('alpha'), H.param('beta')
        x = H.rarray('x', (1,))
        jac = H.mod('prysm.polynomials.jacobi')
        A, B, C = jac.recurrence_abc(n, a, b)

        def pdef(k):
            if k < 0:
                return 0 * x
            ref = 0 * x
            for s_ in range(k + 1):
                ref = ref + gbinom(H, k + a, k - s_) * gbinom(H, k + b, s_) * ((x - 1) * H.frac(1, 2)) ** s_ * ((x + 1) * H.frac(1, 2)) ** (k - s_)
            return ref
        H.eq('P_{n+1} == (A x + B) P_n - C P_{n-1}', (A * x + B) * pdef(n) - C * pdef(n - 1), pdef(n + 1))
    elif fam == 'zernike':
        m = cfg['m']
        r = H.rarray('r', (1,))
        t = H.asarray([H.param('t')])
        out = P.zernike_nm(n, m, r, t, norm=cfg['norm'])
        H.eq('zernike', out, zernike_def(H, n, m, r, t, cfg['norm']))
    elif fam == 'zernike_seq_def':
        nms = [(nn, mm) for nn in range(cfg['nmax'] + 1) for mm in range(-nn, nn + 1, 2)]
        r = H.rarray('r', (1,))
        t = H.asarray([H.param('t')])
        for norm in (True, False):
            got = P.zernike_nm_seq(nms, r, t, norm=norm)
            ref = H.np.stack([H.asarray(zernike_def(H, nn, mm, r, t, norm)) for nn, mm in nms])
            H.eq('zernike_nm_seq == definition (norm=%s)' % norm, got, ref)
    elif fam == 'zernike_gram':
        nms = [(nn, mm) for nn in range(cfg['nmax'] + 1) for mm in range(-nn, nn + 1, 2)]
        for i, (n1, m1) in enumerate(nms):
            for (n2, m2) in nms[i:]:
                if abs(m1) != abs(m2) and H.mode == 'symbolic':
                    # different harmonics: still checked, cheap
                    pass
                val = disk_mean(H, lambda r, t: P.zernike_nm(n1, m1, r, t) * P.zernike_nm(n2, m2, r, t),
                                n1 + n2, abs(m1) + abs(m2))
                H.eq('gram[%d,%d|%d,%d]' % (n1, m1, n2, m2), val, 1 if (n1, m1) == (n2, m2) else 0)
    elif fam == 'qcon':
        x = H.rarray('x', (2,))
        out = P.Qcon(n, x)
        xx = 2 * x * x - 1
        ref = 0
        for s in range(n + 1):
            ref = ref + comb(n, n - s) * comb(n + 4, s) * ((xx - 1) * half) ** s * ((xx + 1) * half) ** (n - s)
        H.eq('qcon', out, ref * x ** 4)
    elif fam == 'qbfs_gram':
        N = cfg['nmax']
        for i in range(N + 1):
            for k in range(i, N + 1):
                val = cheb_weighted_mean_even(H, lambda u: slope_1d(H, lambda v: P.Qbfs(i, v), u) * slope_1d(H, lambda v: P.Qbfs(k, v), u),
                                              4 * (i + k) + 8)
                H.eq('qbfs-slope-gram[%d,%d]' % (i, k), val, 1 if i == k else 0)
    elif fam == 'q2d_gram':
        m = cfg['m']
        N = cfg['nmax']
        diag = []
        for i in range(N + 1):
            for k in range(i, N + 1):
                # radial part S(u) = u^m Q(u^2) (t = 0 -> cos(m t) = 1); gradient inner product after the angular mean:
                # <grad, grad> = 1/2 * ( S_i' S_k' + m^2 S_i S_k / u^2 )   (cos^2 and sin^2 average to 1/2)
                def integrand(u, i=i, k=k):
                    Si = lambda v: P.Q2d(i, m, v, 0 * v)   # noqa
                    Sk = lambda v: P.Q2d(k, m, v, 0 * v)   # noqa
                    si, sk = Si(u), Sk(u)
                    return slope_1d(H, Si, u) * slope_1d(H, Sk, u) + (m * m) * div_u2(H, si * sk, u)
                val = cheb_weighted_mean_even(H, integrand, 4 * (i + k) + 2 * m + 4)
                if i == k:
                    diag.append(val)
                else:
                    H.eq('q2d-slope-gram[m=%d|%d,%d]' % (m, i, k), val, 0)
        for i in range(1, len(diag)):
            H.eq('q2d-slope-gram-diag[m=%d|%d]' % (m, i), diag[i], diag[0])
    elif fam == 'xy':
        x = H.rarray('x', (2, 2))
        y = H.rarray('y', (2, 2))
        out = P.xy(cfg['m'], cfg['n'], x, y, cartesian_grid=False)
        H.eq('xy', out, x ** cfg['m'] * y ** cfg['n'] + 0 * x)
    elif fam == 'hopkins':
        a, b, c = cfg['a'], cfg['b'], cfg['c']
        r = H.rarray('r', (1,))
        hh = H.rarray('h', (1,))
        t = H.asarray([H.param('t')])
        out = P.hopkins(a, b, c, r, t, hh)
        ang = H.sin(abs(a) * t) if a < 0 else H.cos(a * t)
        H.eq('hopkins', out, ang * r ** b * hh ** c)


SCALAR_FAMILIES = ('jacobi', 'legendre', 'cheby1', 'cheby2', 'cheby3', 'cheby4', 'hermite_He', 'hermite_H', 'laguerre', 'dickson1', 'dickson2')


def family_env(H, fam):
    half = H.frac(1, 2)
    e = {}
    if fam == 'jacobi':
        e.update(a=H.param('alpha'), b=H.param('beta'), x=H.rarray('x', (2,)))
    elif fam in ('legendre', 'hermite_He', 'hermite_H'):
        e.update(x=H.rarray('x', (2,)))
    elif fam.startswith('cheby'):
        th = H.param('theta')
        pi = H.pi
        e.update(z=H.E(th / pi), zi=H.E(-th / pi), w=H.E(th / (2 * pi)), wi=H.E(-th / (2 * pi)))
        e['x'] = H.asarray([(e['z'] + e['zi']) * half])
    elif fam == 'laguerre':
        e.update(a=H.param('alpha'), x=H.rarray('x', (2,)))
    elif fam.startswith('dickson'):
        a = H.param('alpha')
        u = H.param('u')
        e.update(a=a, u=u, x=H.asarray([u + a / u]))
    return e


def family_call(P, name, n, e):
    f = getattr(P, name)
    fam = name[:-4] if name.endswith('_seq') else name
    if fam == 'jacobi':
        return f(n, e['a'], e['b'], e['x'])
    if fam == 'laguerre' or fam.startswith('dickson'):
        return f(n, e['a'], e['x'])
    return f(n, e['x'])


def family_compare(H, fam, n, out, e, label):
    half = H.frac(1, 2)
    x = e['x']
    if fam == 'jacobi':
        a, b = e['a'], e['b']
        ref = 0
        for s in range(n + 1):
            ref = ref + gbinom(H, n + a, n - s) * gbinom(H, n + b, s) * ((x - 1) * half) ** s * ((x + 1) * half) ** (n - s)
        H.eq(label, out, ref + 0 * x)
    elif fam == 'legendre':
        ref = 0
        for k in range(n // 2 + 1):
            ref = ref + (-1) ** k * comb(n, k) * comb(2 * n - 2 * k, n) * x ** (n - 2 * k)
        H.eq(label, out, ref * H.frac(1, 2 ** n) + 0 * x)
    elif fam in ('cheby1', 'cheby2', 'cheby3', 'cheby4'):
        z, zi, w, wi = e['z'], e['zi'], e['w'], e['wi']
        if fam == 'cheby1':
            H.eq(label, out, H.asarray([(z ** n + zi ** n) * half]))
        elif fam == 'cheby2':
            H.eq(label, out * (z - zi), H.asarray([z ** (n + 1) - zi ** (n + 1)]))
        elif fam == 'cheby3':
            H.eq(label, out * (w + wi), H.asarray([w ** (2 * n + 1) + wi ** (2 * n + 1)]))
        else:
            H.eq(label, out * (w - wi), H.asarray([w ** (2 * n + 1) - wi ** (2 * n + 1)]))
    elif fam in ('hermite_He', 'hermite_H'):
        ref = 0
        for m in range(n // 2 + 1):
            c = H.frac((-1) ** m * factorial(n), factorial(m) * factorial(n - 2 * m))
            if fam == 'hermite_He':
                ref = ref + c * x ** (n - 2 * m) * H.frac(1, 2 ** m)
            else:
                ref = ref + c * (2 * x) ** (n - 2 * m)
        H.eq(label, out, ref + 0 * x)
    elif fam == 'laguerre':
        a = e['a']
        ref = 0 * x
        for i in range(n + 1):
            ref = ref + (-1) ** i * gbinom(H, n + a, n - i) * x ** i * H.frac(1, factorial(i))
        H.eq(label, out, ref)
    elif fam in ('dickson1', 'dickson2'):
        a, u = e['a'], e['u']
        if fam == 'dickson1':
            H.eq(label, out, H.asarray([u ** n + (a / u) ** n]))
        else:
            H.eq(label, out * (u - a / u), H.asarray([u ** (n + 1) - (a / u) ** (n + 1)]))


def zernike_def(H, n, m, r, t, norm):
    am = abs(m)
    rad = 0
    for k in range((n - am) // 2 + 1):
        c = H.frac((-1) ** k * factorial(n - k),
                   factorial(k) * factorial((n + am) // 2 - k) * factorial((n - am) // 2 - k))
        rad = rad + c * r ** (n - 2 * k)
    if m > 0:
        rad = rad * H.cos(m * t)
    elif m < 0:
        rad = rad * H.sin(am * t)
    else:
        rad = rad + 0 * t
    if norm:
        rad = rad * H.sqrt(H.frac(2 * (n + 1), 2 if m == 0 else 1))
    return rad


def slope_1d(H, f, u):
    """d f(u) / du  -- exact polynomial derivative symbolically; complex-step-free central difference is NOT used:
    in concrete mode the derivative of the polynomial is obtained from a Chebyshev interpolant (exact for polynomials)."""
    if H.mode == 'symbolic':
        return H.diff(f(u), 'u')
    np = H.np
    u = np.asarray(u, dtype=float)
    deg = 40
    k = np.arange(deg + 1)
    nodes = np.cos(np.pi * (k + 0.5) / (deg + 1))
    vals = f(nodes)
    cheb = np.polynomial.chebyshev.Chebyshev.fit(nodes, vals, deg, domain=[-1, 1])
    return cheb.deriv()(u)


def div_u2(H, expr, u):
    if H.mode == 'symbolic':
        from symx.symh import poly_coeffs
        tot = 0
        for e, c in poly_coeffs(expr, 'u').items():
            if e < 2:
                if not c.is_zero():
                    raise ValueError('integrand not divisible by u^2')
                continue
            tot = tot + c * u ** (e - 2)
        return tot
    return expr / (u * u)
