"""C08 -- sequence evaluation equals one-at-a-time evaluation."""
import itertools
import random

ID = 'C08'
FILES = ['prysm/polynomials/jacobi.py', 'prysm/polynomials/cheby.py', 'prysm/polynomials/legendre.py',
         'prysm/polynomials/hermite.py', 'prysm/polynomials/laguerre.py', 'prysm/polynomials/dickson.py',
         'prysm/polynomials/zernike.py', 'prysm/polynomials/qpoly.py', 'prysm/polynomials/xy.py']
FUNCTIONS = ['every *_seq routine of prysm.polynomials and its scalar-order sibling']
STUBS = ['np.sqrt / np.cos / np.sin exact (sqrt atoms, phasors)', 'truenp.unique/abs/arange on concrete integers: real numpy']
EXPLANATION = ('For every family the *_seq routine is run on a symbolic coordinate array (each entry an independent symbol) '
               'and symbolic shape parameters, for EVERY ascending subset of {0..nmax} (and, for the two-index families, '
               'ordered selections from a pool of (n,m) pairs), and compared element-wise with the scalar-order routine; '
               'leading shape must be (len(ns), *x.shape); an exception in the sequence form is a violation.')
BOUNDS = {'quick': 'nmax=4 (31 subsets) per family and coordinate shape in {(), (3,), (2,3), (k,k), (2,2,2)}; 2-index pools of 8 pairs (radial orders up to 6), all ordered pairs + 6 longer lists; xy_seq with and without cartesian_grid',
          'thorough': 'nmax=6 (127 subsets); pools of 12 pairs (8 for xy), all ordered pairs + 12 longer lists'}
OUTSIDE = 'orders above the bound; non-ascending order lists for one-index families (documented as unsupported)'
MAX_PATHS = 4
NDERIVED = 40

ONE_INDEX = {
    # name: (seq fn, single fn, number of shape parameters)
    'jacobi': ('jacobi_seq', 'jacobi', 2), 'jacobi_der': ('jacobi_der_seq', 'jacobi_der', 2),
    'legendre': ('legendre_seq', 'legendre', 0), 'legendre_der': ('legendre_der_seq', 'legendre_der', 0),
    'cheby1': ('cheby1_seq', 'cheby1', 0), 'cheby1_der': ('cheby1_der_seq', 'cheby1_der', 0),
    'cheby2': ('cheby2_seq', 'cheby2', 0), 'cheby2_der': ('cheby2_der_seq', 'cheby2_der', 0),
    'cheby3': ('cheby3_seq', 'cheby3', 0), 'cheby3_der': ('cheby3_der_seq', 'cheby3_der', 0),
    'cheby4': ('cheby4_seq', 'cheby4', 0), 'cheby4_der': ('cheby4_der_seq', 'cheby4_der', 0),
    'hermite_He': ('hermite_He_seq', 'hermite_He', 0), 'hermite_He_der': ('hermite_He_der_seq', 'hermite_He_der', 0),
    'hermite_H': ('hermite_H_seq', 'hermite_H', 0), 'hermite_H_der': ('hermite_H_der_seq', 'hermite_H_der', 0),
    'laguerre': ('laguerre_seq', 'laguerre', 1), 'laguerre_der': ('laguerre_der_seq', 'laguerre_der', 1),
    'dickson1': ('dickson1_seq', 'dickson1', 1), 'dickson2': ('dickson2_seq', 'dickson2', 1),
    'Qbfs': ('Qbfs_seq', 'Qbfs', 0), 'Qcon': ('Qcon_seq', 'Qcon', 0),
}
TWO_INDEX = ('zernike', 'zernike_raw', 'zernike_der', 'Q2d', 'xy')

SHAPES = ['0d', '3', '2x3', 'kxk', '2x2x2']


def subsets(nmax):
    base = list(range(nmax + 1))
    out = []
    for r in range(1, len(base) + 1):
        for c in itertools.combinations(base, r):
            out.append(list(c))
    return out


def configs(tier):
    q = tier == 'quick'
    nmax = 4 if q else 6
    out = []
    for fam in ONE_INDEX:
        for shp in SHAPES:
            out.append({'name': '%s-%s' % (fam, shp), 'family': fam, 'shape': shp, 'nmax': nmax})
    for fam in TWO_INDEX:
        for shp in ('3', '2x3', 'kxk'):
            out.append({'name': '%s-%s' % (fam, shp), 'family': fam, 'shape': shp, 'pool': 8 if q else 12,
                        'nlists': 6 if q else 12})
    return out


def params(cfg):
    fam = cfg['family']
    if fam in ONE_INDEX:
        return [('alpha', {'gt': -1}), ('beta', {'gt': -1})][:ONE_INDEX[fam][2]]
    if fam in ('zernike', 'zernike_raw', 'zernike_der', 'Q2d'):
        return [('t', {})]
    return []


def shape_for(code, k):
    return {'0d': (), '3': (3,), '2x3': (2, 3), 'kxk': (k, k), '2x2x2': (2, 2, 2)}[code]


# several radial orders per |m|, also in descending order (the per-|m| bookkeeping of the radial recurrences must not depend on it)
POOL_ZERNIKE = [(0, 0), (1, 1), (5, -1), (3, 1), (6, 0), (2, 0), (4, -2), (2, 2), (3, -3), (7, 1), (4, 0), (1, -1)]
POOL_Q2D = [(0, 0), (4, 1), (0, 1), (5, -1), (2, 2), (0, -2), (1, -1), (2, 0), (1, 3), (6, 1)]
POOL_XY = [(0, 0), (1, 0), (0, 1), (2, 1), (0, 3), (3, 0), (1, 1), (2, 2)]


def two_index_lists(pool, nlists, seed):
    rng = random.Random(seed)
    out = [[p] for p in pool]
    out += [list(p) for p in itertools.permutations(pool, 2)]
    for _ in range(nlists):
        k = rng.randint(3, len(pool))
        out.append(rng.sample(pool, k))
    out.append(list(pool))
    out.append(list(reversed(pool)))
    return out


def run(cfg, H):
    fam = cfg['family']
    P = H.mod('prysm.polynomials')
    if fam in ONE_INDEX:
        seqn, onen, npar = ONE_INDEX[fam]
        seq, one = getattr(P, seqn), getattr(P, onen)
        pars = [H.param(n) for n in ('alpha', 'beta')[:npar]]
        for ns in subsets(cfg['nmax']):
            shp = shape_for(cfg['shape'], len(ns))
            x = H.rarray('x', shp)
            tag = '%s%s' % (fam, ns)
            got = H.expect_no_raise('seq-raises ' + tag, lambda: seq(ns, *pars, x))
            if got is None:
                continue
            H.shape_is('shape ' + tag, got, (len(ns),) + tuple(shp))
            if tuple(H.np.shape(got)) != (len(ns),) + tuple(shp):
                continue
            ref = [one(n, *pars, x) + 0 * x for n in ns]
            H.eq('values ' + tag, got, H.np.stack([H.asarray(r) for r in ref]))
        return
    # two-index families
    pool = {'zernike': POOL_ZERNIKE, 'zernike_raw': POOL_ZERNIKE, 'zernike_der': POOL_ZERNIKE,
            'Q2d': POOL_Q2D, 'xy': POOL_XY}[fam][:cfg['pool']]
    for lst in two_index_lists(pool, cfg['nlists'], 7):
        shp = shape_for(cfg['shape'], len(lst))
        tag = '%s%s' % (fam, lst)
        if fam == 'xy':
            x = H.rarray('x', shp)
            y = H.rarray('y', shp)
            got = H.expect_no_raise('seq-raises ' + tag, lambda: P.xy_seq(lst, x, y, cartesian_grid=False))
            if got is None:
                continue
            for g, (m_, n_) in zip(got, lst):
                H.shape_is('shape of mode (%d,%d) in %s' % (m_, n_, tag), g, tuple(shp))
            got = H.np.stack([H.asarray(g + 0 * x) for g in got])
            ref = H.np.stack([H.asarray(P.xy(m, n, x, y, cartesian_grid=False) + 0 * x) for m, n in lst])
            if len(shp) == 2:
                # separable evaluation on a true Cartesian grid (the default): every mode has the grid's shape
                xv = H.rarray('xv', (shp[1],))
                yv = H.rarray('yv', (shp[0],))
                gx, gy = H.np.meshgrid(H.np.asarray(xv), H.np.asarray(yv))
                gx, gy = H.asarray(gx), H.asarray(gy)
                gotc = H.expect_no_raise('seq-raises (cartesian grid) ' + tag, lambda: P.xy_seq(lst, gx, gy))
                if gotc is not None:
                    okshape = True
                    for g, (m_, n_) in zip(gotc, lst):
                        H.shape_is('cartesian-grid shape of mode (%d,%d) in %s' % (m_, n_, tag), g, tuple(shp))
                        okshape = okshape and tuple(H.np.shape(g)) == tuple(shp)
                    if okshape:
                        H.eq('cartesian-grid values ' + tag, H.np.stack([H.asarray(g) for g in gotc]),
                             H.np.stack([H.asarray(gx ** m_ * gy ** n_ + 0 * gx) for m_, n_ in lst]))
        else:
            r = H.rarray('r', shp)
            t = H.param('t') + 0 * r
            if fam in ('zernike', 'zernike_raw'):
                norm = fam == 'zernike'
                got = H.expect_no_raise('seq-raises ' + tag, lambda: P.zernike_nm_seq(lst, r, t, norm=norm))
                if got is None:
                    continue
                ref = H.np.stack([H.asarray(P.zernike_nm(n, m, r, t, norm=norm) + 0 * r) for n, m in lst])
            elif fam == 'zernike_der':
                got = H.expect_no_raise('seq-raises ' + tag, lambda: P.zernike_nm_der_seq(lst, r, t))
                if got is None:
                    continue
                # der_seq returns a list of (dr, dt) pairs
                got = H.np.stack([H.np.stack([H.asarray(a + 0 * r), H.asarray(b + 0 * r)]) for a, b in got])
                ref = []
                for n, m in lst:
                    a, b = P.zernike_nm_der(n, m, r, t)
                    ref.append(H.np.stack([H.asarray(a + 0 * r), H.asarray(b + 0 * r)]))
                ref = H.np.stack(ref)
            else:
                got = H.expect_no_raise('seq-raises ' + tag, lambda: P.Q2d_seq(lst, r, t))
                if got is None:
                    continue
                ref = H.np.stack([H.asarray(P.Q2d(n, m, r, t) + 0 * r) for n, m in lst])
        H.shape_is('shape ' + tag, got, tuple(H.np.shape(ref)))
        if tuple(H.np.shape(got)) == tuple(H.np.shape(ref)):
            H.eq('values ' + tag, got, ref)
