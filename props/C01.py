"""C01 -- FFT, matrix-DFT and chirp-Z propagation compute the same (textbook) transform."""
import math
from fractions import Fraction

ID = 'C01'
FILES = ['prysm/fttools.py', 'prysm/propagation.py', 'prysm/conf.py']
FUNCTIONS = ['fttools.MatrixDFTExecutor.dft2/idft2/_setup_bases/_key/clear', 'fttools.ChirpZTransformExecutor.czt2/iczt2/_setup_bases/clear',
             'fttools._prepare_czt_basis', 'fttools.fftrange/pad2d/next_fast_len', 'propagation.focus/unfocus',
             'propagation.focus_fixed_sampling/unfocus_fixed_sampling/Q_for_sampling']
STUBS = ['fft.fft/ifft/fft2/ifft2 -> the DFT by definition with exact roots of unity (cyclotomic arithmetic)',
         'fft.fftshift/ifftshift/next_fast_len -> numpy / scipy on shapes', 'np.exp(i*x) -> unit phasor with exact group law',
         'np.sqrt -> exact square roots']
EXPLANATION = ('The transform routines are run once on a fully symbolic complex (or real) input array with symbolic Q (scalar or '
               'per-axis) and symbolic shift; the kernel C[i,j,k,l] (coefficient of input sample (i,j) in output sample (k,l)) is '
               'read off and compared with the textbook kernel (m Qy n Qx)^(-1/2) E(-/+ 2 y_i (v_k - s_y)/(m Qy) -/+ 2 x_j (u_l - s_x)/(n Qx)). '
               'With shift == (0,0) equality is required; with a symbolic shift the two kernels may differ by a unit factor that '
               'does not depend on the input sample. Cache histories: a call after other calls / clear() / precision changes on the '
               'shared executors must equal the call on a fresh executor.')
BOUNDS = {'quick': 'mdft: shapes (m,n)->(M,N) in [1..3]^4; czt: m,n,M,N in [1..3] with m*n*M*N<=36; FFT route: shapes [1..4]^2 x Q in {1,2,3,3/2}; histories of length <=3 on 2x3 arrays',
          'thorough': 'the quick set, all four (scalar / per-axis Q) x (zero / symbolic shift) variants on shapes up to 2, three larger parity mixes; FFT route [1..5]^2 x Q in {1,5/4,3/2,2,3} (padded size <= 49); histories length 3 (larger sets did not finish in 100 minutes on 16 cores)'}
OUTSIDE = ('float32/float64 rounding (only which precision the cached bases were built for is tracked); shapes beyond the bound; '
           'for the padded-FFT route with non-integer m*Q the grid is defined by the padded length ceil(m*Q)')
NDERIVED = 24
MAX_PATHS = 16
CFG_TIMEOUT = {'quick': 900, 'thorough': 3600}


def _shape_sets(tier, engine):
    q = tier == 'quick'
    out = []
    if engine == 'mdft':
        hi = 3
        for m in range(1, hi + 1):
            for n in range(1, hi + 1):
                for M in range(1, hi + 1):
                    for N in range(1, hi + 1):
                        out.append((m, n, M, N))
        if not q:
            out += [(4, 2, 3, 4), (2, 4, 4, 3), (3, 4, 2, 4)]
    else:
        hi = 3
        for m in range(1, hi + 1):
            for n in range(1, hi + 1):
                for M in range(1, hi + 1):
                    for N in range(1, hi + 1):
                        if q and m * n * M * N > 36:
                            continue
                        if not q and m * n * M * N > 36:
                            continue
                        out.append((m, n, M, N))
    return out


def configs(tier):
    q = tier == 'quick'
    out = []
    for eng in ('mdft', 'czt'):
        shapes = _shape_sets(tier, eng)
        for (m, n, M, N) in shapes:
            for direction in ('fwd', 'inv'):
                small = max(m, n, M, N) <= 2
                variants = [('Qs', 'zero'), ('Qxy', 'sym')] if (q or not small) else [('Qs', 'zero'), ('Qxy', 'zero'), ('Qs', 'sym'), ('Qxy', 'sym')]
                if not q and max(m, n, M, N) >= 4:
                    # sized for about half an hour on 16 cores: the larger shapes get the two extreme variants, and a bounded kernel size
                    if m * n * M * N > 96 and (m, n, M, N) not in ((5, 5, 5, 5), (5, 4, 4, 5), (4, 5, 5, 4), (4, 4, 4, 4)):
                        continue
                    variants = [('Qs', 'zero'), ('Qxy', 'sym')]
                # keep the quick tier small: the per-axis/symbolic-shift variant only on a parity-covering subset
                for qk, sk in variants:
                    if (qk, sk) == ('Qxy', 'sym') and not (max(m, n, M, N) <= 2 or (m, n, M, N) in ((2, 3, 3, 2), (3, 2, 2, 3), (3, 3, 3, 3), (2, 2, 3, 3), (3, 3, 2, 2))):
                        continue
                    out.append({'name': '%s-%s-%dx%d-%dx%d-%s-%s' % (eng, direction, m, n, M, N, qk, sk), 'kind': 'kernel',
                                'engine': eng, 'dir': direction, 'in': [m, n], 'out': [M, N], 'Q': qk, 'shift': sk,
                                'real': False})
        # real-input branch (iczt2 optimises real inputs)
        for (m, n, M, N) in [(2, 2, 2, 2), (2, 3, 3, 2), (3, 3, 3, 3), (3, 2, 2, 2)]:
            for direction in ('fwd', 'inv'):
                out.append({'name': '%s-%s-%dx%d-%dx%d-real' % (eng, direction, m, n, M, N), 'kind': 'kernel', 'engine': eng,
                            'dir': direction, 'in': [m, n], 'out': [M, N], 'Q': 'Qs', 'shift': 'zero', 'real': True})
    # fixed-sampling wrappers (method dispatch + unit conversion): square and non-square
    for meth in ('mdft', 'czt'):
        for (m, n, M, N) in [(2, 2, 3, 3), (3, 3, 2, 2), (2, 3, 3, 2), (3, 2, 2, 3)]:
            for direction in ('fwd', 'inv'):
                out.append({'name': 'fixed-%s-%s-%dx%d-%dx%d' % (meth, direction, m, n, M, N), 'kind': 'fixed', 'engine': meth,
                            'dir': direction, 'in': [m, n], 'out': [M, N]})
    # padded FFT route
    hi = 4 if q else 5
    Qs = ['1', '2', '3', '3/2'] if q else ['1', '5/4', '3/2', '2', '3']
    for m in range(1, hi + 1):
        for n in range(1, hi + 1):
            for Q in Qs:
                if math.ceil(m * Fraction(Q)) * math.ceil(n * Fraction(Q)) > (36 if q else 49):
                    continue
                for direction in ('fwd', 'inv'):
                    out.append({'name': 'fft-%s-%dx%d-Q%s' % (direction, m, n, Q), 'kind': 'fft', 'dir': direction,
                                'in': [m, n], 'Q': Q})
    # cache / history independence
    hist = [
        ['call_b', 'call_a'], ['call_a', 'call_a'], ['call_a', 'clear', 'call_a'], ['prec32', 'call_a', 'prec64', 'call_a'],
        ['call_b', 'clear', 'call_b', 'call_a'], ['prec32', 'call_b', 'prec64', 'call_b', 'call_a'],
    ]
    for eng in ('mdft', 'czt'):
        for i, h in enumerate(hist):
            out.append({'name': 'history-%s-%d' % (eng, i), 'kind': 'history', 'engine': eng, 'ops': h})
    return out


def params(cfg):
    ps = []
    if cfg['kind'] == 'kernel':
        if cfg['Q'] == 'Qs':
            ps.append(('Q', {'pos': True}))
        else:
            ps += [('Qy', {'pos': True}), ('Qx', {'pos': True})]
        if cfg['shift'] == 'sym':
            ps += [('sx', {}), ('sy', {})]
    elif cfg['kind'] == 'fixed':
        ps += [('dx', {'pos': True}), ('wvl', {'pos': True}), ('efl', {'pos': True}), ('odx', {'pos': True}), ('sx', {}), ('sy', {})]
    elif cfg['kind'] == 'history':
        ps += [('Q', {'pos': True}), ('Q2', {'pos': True})]
    return ps


def textbook_kernel(H, m, n, M, N, Qy, Qx, sy, sx, sign):
    """D[i,j,k,l] = (m Qy n Qx)^(-1/2) E(sign*2*y_i*(v_k-sy)/(m Qy) + sign*2*x_j*(u_l-sx)/(n Qx))"""
    np = H.np
    D = H.zeros((m, n, M, N))
    norm = H.sqrt(1 / (m * Qy * n * Qx))
    for i in range(m):
        for j in range(n):
            y = i - m // 2
            x = j - n // 2
            for k in range(M):
                for ll in range(N):
                    v = k - M // 2
                    u = ll - N // 2
                    ph = sign * 2 * y * (v - sy) / (m * Qy) + sign * 2 * x * (u - sx) / (n * Qx)
                    D[i, j, k, ll] = norm * H.E(ph)
    return D


def run(cfg, H):
    ft = H.mod('prysm.fttools')
    kind = cfg['kind']
    if kind == 'kernel':
        m, n = cfg['in']
        M, N = cfg['out']
        if cfg['Q'] == 'Qs':
            Qy = Qx = H.param('Q')
            Qarg = Qy
        else:
            Qy, Qx = H.param('Qy'), H.param('Qx')
            Qarg = (Qy, Qx)
        if cfg['shift'] == 'sym':
            sx, sy = H.param('sx'), H.param('sy')
            shift = (sx, sy)          # documented order: (X, Y)
        else:
            sx = sy = 0
            shift = (0, 0)
        eng = ft.mdft if cfg['engine'] == 'mdft' else ft.czt
        fn = {('mdft', 'fwd'): lambda f: eng.dft2(f, Qarg, (M, N), shift), ('mdft', 'inv'): lambda f: eng.idft2(f, Qarg, (M, N), shift),
              ('czt', 'fwd'): lambda f: eng.czt2(f, Qarg, (M, N), shift), ('czt', 'inv'): lambda f: eng.iczt2(f, Qarg, (M, N), shift)}[
            (cfg['engine'], cfg['dir'])]
        sign = -1 if cfg['dir'] == 'fwd' else 1
        C = H.linear_map(fn, (m, n), complex_=not cfg['real'])
        D = textbook_kernel(H, m, n, M, N, Qy, Qx, sy, sx, sign)
        H.shape_is('output shape', C, (m, n, M, N))
        if cfg['shift'] == 'zero':
            H.eq('kernel == textbook DFT kernel', C, D)
        else:
            # equal up to a unit factor g(k,l) that does not depend on the input sample:  C_ij * D_00 == C_00 * D_ij
            lhs = H.zeros((m, n, M, N))
            rhs = H.zeros((m, n, M, N))
            for i in range(m):
                for j in range(n):
                    lhs[i, j] = C[i, j] * D[0, 0]
                    rhs[i, j] = C[0, 0] * D[i, j]
            H.eq('kernel == g(k,l) * textbook kernel (g free of the input index)', lhs, rhs)
            H.eq('|kernel| == |textbook kernel|', H.abs2(C[0, 0]), H.abs2(D[0, 0]))
    elif kind == 'fixed':
        prop = H.mod('prysm.propagation')
        m, n = cfg['in']
        M, N = cfg['out']
        dx, wvl, efl, odx = H.param('dx'), H.param('wvl'), H.param('efl'), H.param('odx')
        sx, sy = H.param('sx'), H.param('sy')
        if cfg['dir'] == 'fwd':
            fn = lambda f: prop.focus_fixed_sampling(f, dx, efl, wvl, odx, (M, N), shift=(sx, sy), method=cfg['engine'])   # noqa
            direct = lambda f: (ft.mdft.dft2 if cfg['engine'] == 'mdft' else ft.czt.czt2)(   # noqa
                f, (prop.Q_for_sampling(m * dx, efl, wvl, odx), prop.Q_for_sampling(n * dx, efl, wvl, odx)), (M, N), (sx / odx, sy / odx))
        else:
            fn = lambda f: prop.unfocus_fixed_sampling(f, dx, efl, wvl, odx, (M, N), shift=(sx, sy), method=cfg['engine'])   # noqa
            Q = (prop.Q_for_sampling(odx * M, efl, wvl, dx) / (H.frac(m) / M), prop.Q_for_sampling(odx * N, efl, wvl, dx) / (H.frac(n) / N))
            direct = lambda f: (ft.mdft.idft2 if cfg['engine'] == 'mdft' else ft.czt.iczt2)(f, Q, (M, N), (sx / odx, sy / odx))   # noqa
        C = H.linear_map(fn, (m, n))
        ft.mdft.clear()
        ft.czt.clear()
        C2 = H.linear_map(direct, (m, n), name='g')
        H.eq('wrapper == executor call with Q and shift converted as documented', C, C2)
    elif kind == 'fft':
        prop = H.mod('prysm.propagation')
        m, n = cfg['in']
        Q = Fraction(cfg['Q'])
        Qv = H.frac(Q.numerator, Q.denominator)
        M, N = math.ceil(m * Q), math.ceil(n * Q)
        fn = (lambda f: prop.focus(f, Qv)) if cfg['dir'] == 'fwd' else (lambda f: prop.unfocus(f, Qv))
        C = H.linear_map(fn, (m, n))
        H.shape_is('output shape', C, (m, n, M, N))
        sign = -1 if cfg['dir'] == 'fwd' else 1
        D = textbook_kernel(H, m, n, M, N, H.frac(M, m), H.frac(N, n), 0, 0, sign)
        H.eq('padded FFT kernel == textbook kernel on the padded grid', C, D)
        if (m * Q).denominator == 1 and (n * Q).denominator == 1:
            eng = ft.mdft.dft2 if cfg['dir'] == 'fwd' else ft.mdft.idft2
            C2 = H.linear_map(lambda f: eng(f, Qv, (M, N)), (m, n), name='g')
            H.eq('padded FFT == matrix DFT', C, C2)
    elif kind == 'history':
        conf = H.mod('prysm.conf').config
        eng = ft.mdft if cfg['engine'] == 'mdft' else ft.czt
        call = eng.dft2 if cfg['engine'] == 'mdft' else eng.czt2
        Q, Q2 = H.param('Q'), H.param('Q2')
        f = H.carray('f', (2, 3))
        g = H.carray('g', (3, 2))
        last = None
        last_prec = 64
        for op in cfg['ops']:
            if op == 'call_a':
                last = call(f, Q, (3, 2))
                last_prec = 64 if conf.precision is H.np.float64 or getattr(conf.precision, 'name', '') == 'float64' else 32
            elif op == 'call_b':
                call(g, Q2, (2, 3))
                call(f, Q, (3, 2))
            elif op == 'clear':
                eng.clear()
            elif op == 'prec32':
                conf.precision = 32
            elif op == 'prec64':
                conf.precision = 64
        # fresh executor
        fresh = type(eng)()
        freshcall = fresh.dft2 if cfg['engine'] == 'mdft' else fresh.czt2
        ref = freshcall(f, Q, (3, 2))
        H.eq('result after history == result on a fresh executor', last, ref)
        if cfg['engine'] == 'mdft':
            # the bases the last call used must have been built at the precision configured for that call
            if H.mode == 'symbolic':
                H.holds('bases used by the last call were built at the configured precision', _basis_precision_ok(H, eng, conf))
            else:
                H.eq('bases used by the last call were built at the configured precision', last, ref, rtol=1e-11)


def _basis_precision_ok(H, eng, conf):
    want = getattr(conf.precision, 'name', 'float64')
    store = list(getattr(eng, 'Ein', {}).items()) + list(getattr(eng, 'Eout', {}).items())
    # a cache entry whose key does not mention the precision is reachable at any configured precision:
    # it must have been built at the precision that is configured now (the last call ran at this precision)
    for key, arr in store:
        tag = getattr(arr, '_prec_tag', None)
        if tag is not None and tag != want and not _key_mentions_precision(key):
            return False
    return True


def _key_mentions_precision(key):
    return any(getattr(k, 'name', None) in ('float32', 'float64', 'complex64', 'complex128') for k in (key if isinstance(key, tuple) else (key,)))


