"""C12 -- interferogram data, mask and coordinates stay coherent over any history (inductive step)."""
import itertools

ID = 'C12'
FILES = ['prysm/interferogram.py', 'prysm/_richdata.py', 'prysm/util.py', 'prysm/fttools.py', 'prysm/coordinates.py', 'prysm/polynomials/__init__.py']
FUNCTIONS = ['Interferogram.crop/pad/mask/fill/spike_clip/remove_piston/remove_tiptilt/remove_power/recenter/latcal/strip_latcal',
             'RichData.x/y/r/t caches', 'interferogram.fit_plane/fit_sphere', 'util.mean/rms/std/Sa/pv', 'coordinates.cart_to_polar/make_xy_grid']
STUBS = ['np.linalg.lstsq -> exact solution of the normal equations', 'np.arctan2 -> angle atom (cos, sin) = (x, y)/sqrt(x^2+y^2)', 'np.sqrt -> sqrt atoms',
         'NaN -> absorbing not-a-number element; boolean masks on it are concrete']
EXPLANATION = ('Inductive step instead of history enumeration: a VALID state is an Interferogram whose data has symbolic finite entries and an '
               'enumerated NaN pattern, symbolic dx, and whose lazily computed coordinate caches are either empty or populated consistently '
               '(every population pattern: none / x,y / x,y,r,t). Each public mutator is run ONCE from such a state and the invariant (caches have '
               'the data\'s shape, are spaced by the current dx, r,t are the polar coordinates of x,y) is decided afterwards, also after reading '
               'x/y/r/t again; since the mutators are also checked to return a valid state, one step covers histories of any length. '
               'Statistics identities/inequalities are decided on field-level symbolic samples.')
BOUNDS = {'quick': 'data shapes 3x3, 3x4, 4x3, 4x5 with 4 NaN patterns; two-step sequences for the cache-sensitive mutators; statistics on 3 and 4 samples; Sa and PV against their definitions over every ordering of 3-4 samples',
          'thorough': 'shapes up to 5x6, 6 NaN patterns, all two-step sequences; statistics on up to 5 samples; 5 samples'}
OUTSIDE = 'Interferogram.filter (Bessel/jinc kernel not modelled), pvr (37-term fit), psd/bandlimited_rms (C13), plotting'
NDERIVED = 80
MAX_PATHS = 64
CFG_TIMEOUT = {'quick': 900, 'thorough': 3600}

MUTATORS = ['crop', 'pad_samples', 'pad_shape', 'mask', 'fill', 'remove_piston', 'remove_tiptilt', 'remove_power', 'recenter', 'latcal',
            'strip_latcal', 'crop_then_pad', 'latcal_then_crop', 'pad_then_recenter']
CACHES = ['none', 'xy', 'xyrt']


def nan_cells(kind, shape):
    m, n = shape
    if kind == 'none':
        return []
    if kind == 'border':      # first row and last column invalid: crop has something to do
        return [(0, j) for j in range(n)] + [(i, n - 1) for i in range(m)]
    if kind == 'corners':
        return [(0, 0), (0, n - 1), (m - 1, 0), (m - 1, n - 1)]
    if kind == 'interior':
        return [(1, 1)]
    if kind == 'ragged':
        return [(0, 0), (0, 1), (m - 1, n - 1)]
    if kind == 'left':
        return [(i, 0) for i in range(m)]
    if kind == 'right':
        return [(i, n - 1) for i in range(m)]
    if kind == 'top':
        return [(0, j) for j in range(n)]
    if kind == 'bottom':
        return [(m - 1, j) for j in range(n)]
    if kind == 'left2':
        return [(i, j) for i in range(m) for j in range(min(2, n - 1))]
    raise ValueError(kind)


def _maxof(vals):
    b = vals[0]
    for v in vals[1:]:
        if v > b:
            b = v
    return b


def _minof(vals):
    b = vals[0]
    for v in vals[1:]:
        if v < b:
            b = v
    return b


def configs(tier):
    q = tier == 'quick'
    shapes = [(3, 3), (3, 4), (4, 3), (4, 5)] if q else [(3, 3), (3, 4), (4, 3), (4, 5), (5, 5), (5, 6)]
    pats = ['none', 'border', 'interior', 'ragged'] if q else ['none', 'border', 'interior', 'ragged', 'corners', 'left2']
    onesided = ['left', 'right', 'top', 'bottom']
    out = []
    for shp in shapes:
        for pat in pats:
            for mut in MUTATORS:
                if q and shp == (4, 5) and mut not in ('crop', 'pad_shape', 'latcal', 'crop_then_pad'):
                    continue
                for cache in CACHES:
                    out.append({'name': '%s-%dx%d-%s-%s' % (mut, shp[0], shp[1], pat, cache), 'kind': 'step', 'mut': mut, 'shape': list(shp),
                                'nan': pat, 'cache': cache})
    # crop has one code path per side: every one-sided invalid band, on wide, tall and square arrays
    for shp in [(3, 4), (4, 3), (3, 3)] + ([] if q else [(5, 3), (3, 5), (2, 6)]):
        for pat in onesided + ['left2']:
            for cache in ('none', 'xyrt'):
                out.append({'name': 'crop-%dx%d-%s-%s' % (shp[0], shp[1], pat, cache), 'kind': 'step', 'mut': 'crop', 'shape': list(shp),
                            'nan': pat, 'cache': cache})
    # two-step sequences (the second step starts from the state the first one left, caches populated in between)
    base = ['crop', 'pad_samples', 'latcal', 'recenter', 'strip_latcal', 'mask', 'remove_piston']
    pairs = [(a, b) for a in base for b in base if a != b]
    if q:
        pairs = [(a, b) for (a, b) in pairs if a in ('crop', 'pad_samples', 'latcal', 'recenter') and b in ('crop', 'pad_samples', 'latcal', 'recenter', 'strip_latcal')]
    for (a, b) in pairs:
        for shp, pat in (((3, 4), 'border'), ((4, 3), 'left')) if q else (((3, 4), 'border'), ((4, 3), 'left'), ((4, 4), 'ragged'), ((3, 5), 'top')):
            for between in ('r', 't', 'none'):
                out.append({'name': 'seq-%s-%s-%dx%d-%s-read_%s' % (a, b, shp[0], shp[1], pat, between), 'kind': 'seq', 'muts': [a, b],
                            'shape': list(shp), 'nan': pat, 'between': between})
    for nsmp in ((3, 4) if q else (3, 4, 5)):
        # one path per ordering / sign pattern of the samples (PV and Sa branch on them)
        out.append({'name': 'stats-%d' % nsmp, 'kind': 'stats', 'n': nsmp, 'max_paths': 2000})
        out.append({'name': 'stats-ineq-%d' % nsmp, 'kind': 'stats_ineq', 'n': nsmp, 'max_paths': 2000})
    for shp in [(3, 3), (3, 4)]:
        for pat in ('none', 'ragged'):
            out.append({'name': 'idempotence-%dx%d-%s' % (shp[0], shp[1], pat), 'kind': 'idem', 'shape': list(shp), 'nan': pat})
    return out


def params(cfg):
    if cfg['kind'] in ('step', 'idem', 'seq'):
        return [('dx', {'pos': True}), ('ps', {'pos': True}), ('fillv', {})]
    if cfg['kind'] in ('stats', 'stats_ineq'):
        return [('v%d' % i, {'lo': -3, 'hi': 3}) for i in range(cfg['n'])]
    return []


def build(H, cfg):
    I = H.mod('prysm.interferogram')
    shp = tuple(cfg['shape'])
    data = H.rarray('d', shp)
    data = H.np.array(data, copy=True) if H.mode == 'concrete' else data.copy()
    for (i, j) in nan_cells(cfg['nan'], shp):
        data[i, j] = H.nan
    return I, I.Interferogram(data, dx=H.param('dx'), wavelength=H.frac(6328, 10000)), data


def populate(ifg, cache):
    if cache in ('xy', 'xyrt'):
        ifg.x, ifg.y
    if cache == 'xyrt':
        ifg.r, ifg.t


def check_invariant(H, ifg, tag, order='xyrt'):
    np = H.np
    shp = tuple(np.shape(ifg.data))
    got = {}
    for c in order:
        got[c] = getattr(ifg, c)
    x, y, r, t = got['x'], got['y'], got['r'], got['t']
    for nm, arr in (('x', x), ('y', y), ('r', r), ('t', t)):
        H.shape_is('%s: %s has the shape of the data' % (tag, nm), arr, shp)
    if any(tuple(np.shape(a)) != shp for a in (x, y, r, t)):
        return
    dx = ifg.dx
    if shp[1] > 1:
        H.eq('%s: x is spaced by the current dx' % tag, x[:, 1:] - x[:, :-1], dx + 0 * x[:, 1:])
    if shp[0] > 1:
        H.eq('%s: y is spaced by the current dx' % tag, y[1:, :] - y[:-1, :], dx + 0 * y[1:, :])
    if shp[0] > 1:
        H.eq('%s: x is constant along columns' % tag, x[1:, :] - x[:-1, :], 0 * x[1:, :])
    if shp[1] > 1:
        H.eq('%s: y is constant along rows' % tag, y[:, 1:] - y[:, :-1], 0 * y[:, 1:])
    H.eq('%s: r^2 == x^2 + y^2' % tag, r * r, x * x + y * y)
    H.eq('%s: r cos t == x' % tag, r * H.cos(t), x)
    H.eq('%s: r sin t == y' % tag, r * H.sin(t), y)


def nanmask(H, a):
    np = H.np
    if H.mode == 'concrete':
        return np.isnan(np.asarray(a, dtype=float))
    return np.isnan(a)


def apply_mutator(H, I, ifg, mut, data0):
    np = H.np
    shp = tuple(np.shape(ifg.data))
    valid_before = ~nanmask(H, ifg.data)
    if mut == 'crop':
        ifg.crop()
    elif mut == 'pad_samples':
        ifg.pad(samples=(1, 2))
    elif mut == 'pad_shape':
        ifg.pad(shape=(shp[0] + 2, shp[1] + 1))
    elif mut == 'mask':
        mk = np.ones(shp, dtype=bool)
        mk[0, :] = False
        ifg.mask(mk)
    elif mut == 'fill':
        ifg.fill(H.param('fillv'))
    elif mut == 'remove_piston':
        ifg.remove_piston()
    elif mut == 'remove_tiptilt':
        ifg.remove_tiptilt()
    elif mut == 'remove_power':
        ifg.remove_power()
    elif mut == 'recenter':
        ifg.recenter()
    elif mut == 'latcal':
        ifg.latcal(H.param('ps'))
    elif mut == 'strip_latcal':
        ifg.strip_latcal()
    elif mut == 'crop_then_pad':
        ifg.crop()
        ifg.r if ifg._x is not None else None
        ifg.pad(samples=1)
    elif mut == 'latcal_then_crop':
        ifg.latcal(H.param('ps'))
        ifg.crop()
    elif mut == 'pad_then_recenter':
        ifg.pad(samples=(2, 1))
        ifg.recenter()
    return valid_before


def run(cfg, H):
    np = H.np
    k = cfg['kind']
    if k == 'step':
        I, ifg, data0 = build(H, cfg)
        populate(ifg, cfg['cache'])
        mut = cfg['mut']
        valid_before = H.expect_no_raise('%s raises' % mut, lambda: apply_mutator(H, I, ifg, mut, data0))
        if valid_before is None:
            return
        check_invariant(H, ifg, 'after ' + mut)
        if mut in ('latcal',):
            H.eq('latcal sets dx to the plate scale', ifg.dx, H.param('ps'))
        if mut == 'strip_latcal':
            H.eq('strip_latcal sets dx to 1', ifg.dx, 1)
        valid_after = ~nanmask(H, ifg.data)
        if mut in ('remove_piston', 'remove_tiptilt', 'remove_power', 'recenter', 'latcal', 'strip_latcal'):
            H.holds('%s leaves the set of invalid samples unchanged' % mut, bool((valid_after == valid_before).all()))
            H.shape_is('%s keeps the shape' % mut, ifg.data, tuple(cfg['shape']))
        if mut == 'fill':
            H.holds('fill leaves no invalid sample', bool(valid_after.all()))
        if mut == 'crop':
            nb = int(valid_before.sum())
            H.holds('crop keeps every valid sample', int(valid_after.sum()) == nb)
            rows = valid_after.any(axis=1)
            cols = valid_after.any(axis=0)
            if nb:
                H.holds('crop leaves no all-invalid border', bool(rows[0] and rows[-1] and cols[0] and cols[-1]))
        if mut == 'remove_piston' and bool(valid_before.any()):
            H.eq('mean is zero after remove_piston', H.mod('prysm.util').mean(ifg.data), 0)
    elif k == 'seq':
        I, ifg, data0 = build(H, cfg)
        a, b = cfg['muts']
        ifg.r
        if H.expect_no_raise('%s raises' % a, lambda: apply_mutator(H, I, ifg, a, data0)) is None:
            return
        if cfg['between'] == 'r':
            ifg.r
        elif cfg['between'] == 't':
            ifg.t
        if H.expect_no_raise('%s raises' % b, lambda: apply_mutator(H, I, ifg, b, data0)) is None:
            return
        # read the radius before the angle, and the other way round on a copy of the state
        import copy
        other = copy.deepcopy(ifg) if H.mode == 'concrete' else None
        check_invariant(H, ifg, 'after %s, %s (r read first)' % (a, b), order='rtxy')
        if other is not None:
            check_invariant(H, other, 'after %s, %s (t read first)' % (a, b), order='trxy')
        else:
            I2, ifg2, d2 = build(H, cfg)
            ifg2.r
            apply_mutator(H, I2, ifg2, a, d2)
            if cfg['between'] == 'r':
                ifg2.r
            elif cfg['between'] == 't':
                ifg2.t
            apply_mutator(H, I2, ifg2, b, d2)
            check_invariant(H, ifg2, 'after %s, %s (t read first)' % (a, b), order='trxy')
    elif k == 'idem':
        I, ifg, data0 = build(H, cfg)
        ifg.remove_tiptilt()
        once = ifg.data.copy()
        ifg.remove_tiptilt()
        H.eq('remove_tiptilt is idempotent', ifg.data, once)
        I2, ifg2, _ = build(H, cfg)
        ifg2.remove_power()
        once = ifg2.data.copy()
        ifg2.remove_power()
        H.eq('remove_power is idempotent', ifg2.data, once)
        I3, ifg3, _ = build(H, dict(cfg, nan='border'))
        ifg3.crop()
        s1 = tuple(np.shape(ifg3.data))
        d1 = ifg3.data.copy()
        ifg3.crop()
        H.shape_is('crop is idempotent (shape)', ifg3.data, s1)
        if tuple(np.shape(ifg3.data)) == s1:
            H.eq('crop is idempotent (values)', ifg3.data, d1)
    elif k in ('stats', 'stats_ineq'):
        U = H.mod('prysm.util')
        n = cfg['n']
        vals = [H.param('v%d' % i) for i in range(n)]
        arr = H.asarray(vals + [H.nan]).reshape((1, n + 1))
        mean, rms, std, sa, pv = U.mean(arr), U.rms(arr), U.std(arr), U.Sa(arr), U.pv(arr)
        if k == 'stats':
            H.eq('mean ignores invalid samples', mean, sum(vals) * H.frac(1, n))
            H.eq('rms^2 == std^2 + mean^2', rms * rms, std * std + mean * mean)
            H.eq('rms^2 is the mean square of the valid samples', rms * rms, sum(v * v for v in vals) * H.frac(1, n))
            H.eq('Sa is the mean absolute deviation of the valid samples', sa, sum(abs(v - mean) for v in vals) * H.frac(1, n))
            H.eq('PV is max - min of the valid samples', pv, _maxof(vals) - _minof(vals))
            if n >= 3:
                # the same statistics on a column-major (transposed / asfortranarray) map with a NaN pattern that is not transpose-symmetric
                fa = H.asarray(H.np.asfortranarray(H.np.asarray(H.asarray([[vals[0], H.nan], [vals[1], vals[2]]]))))
                H.eq('mean of a column-major map ignores invalid samples', U.mean(fa), (vals[0] + vals[1] + vals[2]) * H.frac(1, 3))
                H.eq('rms^2 of a column-major map', U.rms(fa) * U.rms(fa), (vals[0] * vals[0] + vals[1] * vals[1] + vals[2] * vals[2]) * H.frac(1, 3))
        else:
            H.le('Sa <= std', sa, std)
            H.le('std <= PV', std, pv)
            H.le('0 <= Sa', 0, sa)
