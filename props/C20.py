"""C20 -- Jones and Mueller calculus preserve the algebra of polarisation optics."""

ID = 'C20'
FILES = ['prysm/x/polarization.py', 'prysm/propagation.py']
FUNCTIONS = ['x.polarization.linear_retarder/half_wave_plate/quarter_wave_plate/vector_vortex_retarder', 'linear_diattenuator/linear_polarizer',
             'jones_rotation_matrix', 'linear_pol_vector/circular_pol_vector', 'jones_to_mueller/broadcast_kron', 'pauli_spin_matrix/pauli_coefficients',
             'jones_adapter/apply_polarization_optic']
STUBS = ['np.exp(i x)/cos/sin -> phasors with exact group law', 'np.linalg.inv -> exact Gauss-Jordan', 'np.einsum/kron on exact object arrays',
         'np.sqrt exact']
EXPLANATION = ('Retardance, orientation, rotation and diattenuation are symbols; vortex angle arrays have symbolic entries; arbitrary '
               'complex 2x2 matrices have symbolic entries. Group identities (unitarity, idempotence, Malus, conjugation by rotation, '
               'multiplicativity of the Jones->Mueller map, Pauli reconstruction, batched == element-wise) are phasor/polynomial identities.')
BOUNDS = {'quick': 'vortex charges -2..3 on angle batches of shape (2,) and (2,2); Jones batches of leading shape (), (2,), (2,2); adapter on 2x2 fields; rotation / polariser / retarder definitions at an orientation anywhere on the circle (rational parametrisation)',
          'thorough': 'same, plus batches (3,), (2,3) and adapter on 2x3 / 3x3 fields'}
OUTSIDE = 'float rounding; propagation itself (C01/C02) beyond component-wise equality'
NDERIVED = 16
MAX_PATHS = 16


def configs(tier):
    q = tier == 'quick'
    out = [{'name': 'retarders', 'kind': 'retarders'}, {'name': 'polarizer', 'kind': 'polarizer'},
           {'name': 'rotation-conjugation', 'kind': 'rotconj'}, {'name': 'mueller-multiplicative', 'kind': 'mueller_mult'},
           {'name': 'mueller-unitary', 'kind': 'mueller_unitary'}, {'name': 'pauli', 'kind': 'pauli'},
           {'name': 'pol-vectors', 'kind': 'vectors'},
           {'name': 'rotation-definition-any-quadrant', 'kind': 'rotdef'}]
    for ch in range(-2, 4):
        for shp in ([(2,), (2, 2)] if q else [(2,), (2, 2), (3,), (2, 3)]):
            out.append({'name': 'vortex-charge%d-%s' % (ch, 'x'.join(map(str, shp))), 'kind': 'vortex', 'charge': ch, 'shape': list(shp)})
    for shp in ([(2,), (2, 2)] if q else [(2,), (2, 2), (3,), (2, 3)]):
        out.append({'name': 'batched-%s' % 'x'.join(map(str, shp)), 'kind': 'batched', 'shape': list(shp)})
        out.append({'name': 'mueller-batched-%s' % 'x'.join(map(str, shp)), 'kind': 'mueller_batched', 'shape': list(shp)})
    for shp in ([(2, 2)] if q else [(2, 2), (2, 3), (3, 3)]):
        for fn in ('focus', 'unfocus', 'focus_fixed_sampling', 'unfocus_fixed_sampling', 'angular_spectrum'):
            out.append({'name': 'adapter-%s-%dx%d' % (fn, shp[0], shp[1]), 'kind': 'adapter', 'fn': fn, 'shape': list(shp)})
    return out


def params(cfg):
    k = cfg['kind']
    if k in ('retarders', 'rotconj'):
        return [('delta', {}), ('theta', {}), ('alpha', {'lo': 0, 'hi': 1})]
    if k == 'polarizer':
        return [('theta', {}), ('phi', {}), ('alpha', {'lo': 0, 'hi': 1})]
    if k == 'vortex':
        import math
        n = 1
        for s in cfg['shape']:
            n *= s
        return [('delta', {}), ('rot', {})] + [('th%d' % i, {}) for i in range(n)]
    if k in ('batched', 'mueller_batched'):
        n = 1
        for s in cfg['shape']:
            n *= s
        return [('delta', {})] + [('th%d' % i, {}) for i in range(n)]
    if k == 'mueller_unitary':
        return [('delta', {}), ('theta', {}), ('delta2', {}), ('theta2', {})]
    if k == 'vectors':
        return [('phi', {})]
    if k == 'rotdef':
        return [('w', {'lo': -6, 'hi': 6}), ('delta', {})]
    if k == 'adapter':
        return [('dx', {'pos': True}), ('wvl', {'pos': True}), ('efl', {'pos': True}), ('odx', {'pos': True}), ('z', {})]
    return []


def mat(H, rows):
    return H.asarray(rows)


def herm(H, J):
    return H.conj(J).swapaxes(-1, -2)


def eye2(H, lead=()):
    z = H.zeros(tuple(lead) + (2, 2))
    z[..., 0, 0] = 1
    z[..., 1, 1] = 1
    return z


def run(cfg, H):
    pol = H.mod('prysm.x.polarization')
    np = H.np
    k = cfg['kind']
    if k == 'retarders':
        d, th = H.param('delta'), H.param('theta')
        for name, J in (('linear_retarder', pol.linear_retarder(d, theta=th)), ('half_wave_plate', pol.half_wave_plate(theta=th)),
                        ('quarter_wave_plate', pol.quarter_wave_plate(theta=th))):
            H.eq('%s is unitary (J^H J = I)' % name, herm(H, J) @ J, eye2(H))
            H.eq('%s is unitary (J J^H = I)' % name, J @ herm(H, J), eye2(H))
        H.eq('linear_retarder(0) == I', pol.linear_retarder(0 * d, theta=th), eye2(H))
        J1 = pol.linear_retarder(d, theta=th)
        H.eq('retarders at the same orientation add', J1 @ J1, pol.linear_retarder(2 * d, theta=th))
    elif k == 'polarizer':
        th, ph, al = H.param('theta'), H.param('phi'), H.param('alpha')
        P = pol.linear_polarizer(theta=th)
        H.eq('polariser is idempotent', P @ P, P)
        v = pol.linear_pol_vector(ph, degrees=False)
        out = P @ v
        inten = np.sum(H.abs2(out))
        c = H.cos(th - ph)
        H.eq("Malus' law", inten, c * c)
        Dm = pol.linear_diattenuator(al, theta=th)
        H.eq('diattenuator(1) == I', pol.linear_diattenuator(1 + 0 * al, theta=th), eye2(H))
        H.eq('diattenuator squared == diattenuator(alpha^2)', Dm @ Dm, pol.linear_diattenuator(al * al, theta=th))
    elif k == 'rotdef':
        # an orientation anywhere on the circle (rational parametrisation by w = tan(theta/2)), against references that do not use the library's
        # own rotation matrix
        w, d = H.param('w'), H.param('delta')
        th = H.angle('w', full=True)
        c, s_ = (1 - w * w) / (1 + w * w), 2 * w / (1 + w * w)
        R = pol.jones_rotation_matrix(th)
        H.eq('R(theta) == [[cos, sin], [-sin, cos]]', R, H.asarray([[c, s_], [-s_, c]]))
        H.eq('linear_polarizer(theta) == [[c^2, cs], [cs, s^2]]', pol.linear_polarizer(theta=th), H.asarray([[c * c, c * s_], [c * s_, s_ * s_]]))
        e = H.E(d / H.pi)          # exp(i delta)
        em = H.E(-d / H.pi)
        ret = pol.linear_retarder(d, theta=th)
        # a retarder with fast axis at theta: R(-theta) diag(e^{-i d/2}, e^{+i d/2}) R(theta) up to the library's phase convention: compare the
        # convention-free quantity  J00 J11 - J01 J10 (unit modulus) and the off-diagonal symmetry
        H.eq('retarder(theta) is symmetric', ret[0, 1], ret[1, 0])
        H.eq('|det retarder(theta)|^2 == 1', H.abs2(ret[0, 0] * ret[1, 1] - ret[0, 1] * ret[1, 0]), 1)
        H.eq('retarder(theta): (J00 - J11) sin(2 theta) == 2 J01 cos(2 theta)', (ret[0, 0] - ret[1, 1]) * (2 * s_ * c), 2 * ret[0, 1] * (c * c - s_ * s_))
    elif k == 'rotconj':
        d, th, al = H.param('delta'), H.param('theta'), H.param('alpha')
        R = pol.jones_rotation_matrix(th)
        Rm = pol.jones_rotation_matrix(-th)
        H.eq('R(-theta) R(theta) == I', Rm @ R, eye2(H))
        for name, el0, elt in (('retarder', pol.linear_retarder(d, theta=0), pol.linear_retarder(d, theta=th)),
                               ('diattenuator', pol.linear_diattenuator(al, theta=0), pol.linear_diattenuator(al, theta=th)),
                               ('polarizer', pol.linear_polarizer(theta=0), pol.linear_polarizer(theta=th)),
                               ('half wave plate', pol.half_wave_plate(theta=0), pol.half_wave_plate(theta=th))):
            H.eq('%s(theta) == R(-theta) %s(0) R(theta)' % (name, name), elt, Rm @ el0 @ R)
    elif k == 'vortex':
        shp = tuple(cfg['shape'])
        ch = cfg['charge']
        d, rot = H.param('delta'), H.param('rot')
        n = 1
        for s in shp:
            n *= s
        th = H.asarray([H.param('th%d' % i) for i in range(n)]).reshape(shp)
        th_in = th.copy()
        J = pol.vector_vortex_retarder(ch, th_in, retardance=d, rotate=rot)
        H.shape_is('vortex shape', J, shp + (2, 2))
        H.eq('vortex retarder is unitary for every retardance', herm(H, J) @ J, eye2(H, shp))
        # element-by-element construction
        flatJ = J.reshape((n, 2, 2))
        for i in range(n):
            one = pol.vector_vortex_retarder(ch, H.asarray([H.param('th%d' % i)]), retardance=d, rotate=rot)
            H.eq('batched vortex == element %d' % i, flatJ[i], one[0])
        J0 = pol.vector_vortex_retarder(ch, th.copy(), retardance=d, rotate=0)
        R = pol.jones_rotation_matrix(rot)
        Rm = pol.jones_rotation_matrix(-rot)
        H.eq('vortex(rotate) == R(-rotate) vortex(0) R(rotate)', J, Rm @ J0 @ R)
        if ch == 0:
            # a charge-0 vortex at retardance pi is diag(1,-1) conjugated by the rotation: a half wave plate at the rotate angle
            Jh = pol.vector_vortex_retarder(0, 0 * th.copy(), rotate=rot)
            hw = pol.half_wave_plate(theta=rot)
            H.eq('charge-0 vortex at retardance pi == half wave plate at the rotate angle', Jh[(0,) * len(shp)], hw)
        Jpi = pol.vector_vortex_retarder(ch, th.copy(), rotate=rot)
        Jpi2 = pol.vector_vortex_retarder(ch, th.copy(), retardance=H.pi, rotate=rot)
        H.eq('default retardance is pi', Jpi, Jpi2)
    elif k == 'batched':
        shp = tuple(cfg['shape'])
        n = 1
        for s in shp:
            n *= s
        d = H.param('delta')
        ths = [H.param('th%d' % i) for i in range(n)]
        tharr = H.asarray(ths).reshape(shp)
        R = pol.jones_rotation_matrix(tharr, shape=shp)
        H.shape_is('batched rotation shape', R, shp + (2, 2))
        Rf = R.reshape((n, 2, 2))
        for i in range(n):
            H.eq('batched rotation == element %d' % i, Rf[i], pol.jones_rotation_matrix(ths[i]))
        v = pol.linear_pol_vector(tharr, degrees=False)
        H.shape_is('batched pol vector shape', v, shp + (2, 1))
        vf = v.reshape((n, 2))
        for i in range(n):
            H.eq('batched pol vector == element %d' % i, vf[i], H.asarray(pol.linear_pol_vector(ths[i], degrees=False)).reshape((2,)))
        for idx in range(4):
            pm = pol.pauli_spin_matrix(idx, shape=shp)
            H.shape_is('batched pauli shape', pm, shp + (2, 2))
            H.eq('batched pauli %d' % idx, pm.reshape((n, 2, 2))[n - 1], pol.pauli_spin_matrix(idx))
    elif k == 'mueller_mult':
        A = H.carray('A', (2, 2))
        B = H.carray('B', (2, 2))
        MA, MB, MAB = pol.jones_to_mueller(A), pol.jones_to_mueller(B), pol.jones_to_mueller(A @ B)
        H.eq('M(AB) == M(A) M(B)', MAB, MA @ MB)
        H.eq('M(A) without broadcast == with broadcast', pol.jones_to_mueller(A, broadcast=False), MA)
        H.eq('M(I) == I4', pol.jones_to_mueller(eye2(H)), H.np.eye(4) if H.mode == 'symbolic' else H.np.eye(4))
    elif k == 'mueller_unitary':
        d, th, d2, th2 = H.param('delta'), H.param('theta'), H.param('delta2'), H.param('theta2')
        J = pol.linear_retarder(d, theta=th) @ pol.linear_retarder(d2, theta=th2)
        M = pol.jones_to_mueller(J)
        H.eq('unitary Jones -> orthogonal Mueller', M.T @ M, H.np.eye(4))
        H.eq('M00 == 1', M[0, 0], 1)
        H.eq('M[0,1:] == 0', M[0, 1:], 0 * M[0, 1:])
    elif k == 'mueller_batched':
        shp = tuple(cfg['shape'])
        n = 1
        for s in shp:
            n *= s
        Js = [H.carray('J%d' % i, (2, 2)) for i in range(n)]
        big = H.np.stack([H.asarray(j) for j in Js]).reshape(shp + (2, 2))
        Mb = pol.jones_to_mueller(big)
        H.shape_is('batched mueller shape', Mb, shp + (4, 4))
        Mf = Mb.reshape((n, 4, 4))
        for i in range(n):
            H.eq('batched mueller == element %d' % i, Mf[i], pol.jones_to_mueller(Js[i]))
    elif k == 'pauli':
        J = H.carray('J', (2, 2))
        cs = pol.pauli_coefficients(J)
        rec = 0 * J
        for i, c in enumerate(cs):
            rec = rec + c * pol.pauli_spin_matrix(i)
        H.eq('sum c_k sigma_k == J', rec, J)
        for i in range(4):
            ci = pol.pauli_coefficients(pol.pauli_spin_matrix(i))
            H.eq('coefficients of sigma_%d' % i, H.asarray(list(ci)), H.asarray([1 if j == i else 0 for j in range(4)]))
        Jb = H.carray('K', (2, 2, 2))
        cb = pol.pauli_coefficients(Jb)
        for b in range(2):
            cs1 = pol.pauli_coefficients(Jb[b])
            H.eq('batched pauli coefficients == element %d' % b, H.asarray([c[b] for c in cb]), H.asarray(list(cs1)))
    elif k == 'vectors':
        ph = H.param('phi')
        v = pol.linear_pol_vector(ph, degrees=False)
        H.eq('linear pol vector has unit norm', np.sum(H.abs2(v)), 1)
        vd = pol.linear_pol_vector(ph * 180 / H.pi, degrees=True)
        H.eq('degrees flag', vd, v)
        for hand in ('left', 'right'):
            c = pol.circular_pol_vector(hand)
            H.eq('circular pol vector (%s) has unit norm' % hand, np.sum(H.abs2(c)), 1)
        cl, cr = pol.circular_pol_vector('left'), pol.circular_pol_vector('right')
        H.eq('left and right circular are orthogonal', np.sum(H.conj(cl) * cr), 0)
    elif k == 'adapter':
        prop = H.mod('prysm.propagation')
        m, n = cfg['shape']
        dx, wvl, efl, odx, z = H.param('dx'), H.param('wvl'), H.param('efl'), H.param('odx'), H.param('z')
        comps = [[H.carray('E%d%d' % (a, b), (m, n)) for b in range(2)] for a in range(2)]
        field = H.zeros((m, n, 2, 2))
        for a in range(2):
            for b in range(2):
                field[..., a, b] = comps[a][b]
        raw = getattr(prop, cfg['fn'])
        wrapped = pol.jones_adapter(raw)
        args = {'focus': (2,), 'unfocus': (2,), 'focus_fixed_sampling': (dx, efl, wvl, odx, (3, 2)),
                'unfocus_fixed_sampling': (dx, efl, wvl, odx, (3, 2)), 'angular_spectrum': (wvl, dx, z)}[cfg['fn']]
        out = wrapped(field, *args)
        for a in range(2):
            for b in range(2):
                H.eq('polarised propagation component [%d,%d]' % (a, b), out[..., a, b], raw(comps[a][b], *args))
        H.eq('scalar field passes through the adapter unchanged', wrapped(comps[0][0], *args), raw(comps[0][0], *args))
        opt = H.carray('O', (2, 2))
        f2 = pol.apply_polarization_optic(comps[0][0], opt)
        H.shape_is('apply_polarization_optic shape', f2, (m, n, 2, 2))
        H.eq('apply_polarization_optic', f2[1, 0], opt * comps[0][0][1, 0])
