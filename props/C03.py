"""C03 -- output sampling and coordinates are physically correct."""

ID = 'C03'
FILES = ['prysm/propagation.py', 'prysm/fttools.py', 'prysm/coordinates.py', 'prysm/_richdata.py']
FUNCTIONS = ['Wavefront.focus/unfocus/focus_fixed_sampling/unfocus_fixed_sampling', 'propagation.focus_fixed_sampling/unfocus_fixed_sampling',
             'propagation.pupil_sample_to_psf_sample/psf_sample_to_pupil_sample/Q_for_sampling', 'RichData.x/.y', 'coordinates.make_xy_grid',
             'fttools.mdft/czt executors']
STUBS = ['fft.* -> DFT by definition', 'np.exp(i x) -> phasor', 'np.sqrt exact']
EXPLANATION = ('"k waves of tilt land at k*lambda*f/D" is, for a linear transform, the statement that its kernel in PHYSICAL '
               'coordinates is E(-/+ 2 x xi/(lambda f)) per axis, xi_n = (n - N//2) dx_pupil [mm], x_j = (j - J//2) dx_reported [um] (minus '
               'the requested shift).  The kernel of each route is read off a symbolic run (dx, lambda, efl, requested spacing and shift are '
               'symbols; coordinates are taken from the REPORTED wf.dx through RichData.x/.y) and must equal that kernel up to a factor '
               'that does not depend on the pupil sample: C[n,j] D[0,j] == C[0,j] D[n,j].')
BOUNDS = {'quick': 'FFT route: shapes [1..3]^2 x Q in {1,2}; fixed-sampling routes (mdft, czt): input/output shapes in {2,3}^4 subset incl. non-square; both directions',
          'thorough': 'FFT route shapes [1..4]^2 x Q in {1,2,3}; fixed-sampling [1..4]^4 (size product <= 144)'}
OUTSIDE = 'interpolation based read-outs (exact_xy), numerical peak finding; amplitude normalisation (C01/C02)'
NDERIVED = 16
MAX_PATHS = 16
CFG_TIMEOUT = {'quick': 900, 'thorough': 3600}


def configs(tier):
    q = tier == 'quick'
    out = []
    hi = 3 if q else 4
    for m in range(1, hi + 1):
        for n in range(1, hi + 1):
            for Q in ((1, 2, '3/2') if q else (1, 2, 3, '3/2', '5/4')):
                from fractions import Fraction as _F
                import math as _m
                if _m.ceil(m * _F(Q)) * _m.ceil(n * _F(Q)) > (36 if q else 64):
                    continue
                for d in ('fwd', 'inv'):
                    out.append({'name': 'fft-%s-%dx%d-Q%s' % (d, m, n, Q), 'kind': 'fft', 'dir': d, 'in': [m, n], 'Q': str(Q)})
    shapes = [(2, 2, 2, 2), (2, 2, 3, 3), (3, 3, 2, 2), (2, 3, 3, 2), (3, 2, 2, 3), (2, 3, 2, 3), (3, 3, 3, 3), (1, 2, 2, 1)]
    if not q:
        shapes += [(4, 4, 3, 3), (3, 4, 4, 3), (4, 2, 2, 4), (4, 3, 3, 4), (2, 4, 3, 3)]
    for meth in ('mdft', 'czt'):
        for (m, n, M, N) in shapes:
            for d in ('fwd', 'inv'):
                for sh in ('zero', 'sym'):
                    if q and sh == 'sym' and meth == 'czt' and (m, n, M, N) not in ((2, 2, 2, 2), (2, 3, 3, 2), (1, 2, 2, 1)):
                        continue     # symbolic shift through the chirp-Z route is the expensive case: parity/non-square subset
                    out.append({'name': 'fixed-%s-%s-%dx%d-%dx%d-%s' % (meth, d, m, n, M, N, sh), 'kind': 'fixed', 'method': meth,
                                'dir': d, 'in': [m, n], 'out': [M, N], 'shift': sh})
    out.append({'name': 'converters', 'kind': 'conv'})
    return out


def params(cfg):
    ps = [('dx', {'pos': True}), ('wvl', {'pos': True}), ('efl', {'pos': True})]
    if cfg['kind'] == 'fixed':
        ps += [('odx', {'pos': True})]
        if cfg['shift'] == 'sym':
            ps += [('sx', {}), ('sy', {})]
    if cfg['kind'] == 'conv':
        ps += [('N', {'lo': 1, 'integer': True}), ('odx', {'pos': True})]
    return ps


def physical_kernel(H, in_shape, out_shape, xi_y, xi_x, x_y, x_x, wvl, efl, sign):
    """D[i,j,k,l] = E(sign*2*(xi_y[i]*x_y[k] + xi_x[j]*x_x[l])/(wvl*efl))"""
    m, n = in_shape
    M, N = out_shape
    D = H.zeros((m, n, M, N))
    for i in range(m):
        for j in range(n):
            for k in range(M):
                for ll in range(N):
                    D[i, j, k, ll] = H.E(sign * 2 * (xi_y[i] * x_y[k] + xi_x[j] * x_x[ll]) / (wvl * efl))
    return D


def proportional(H, label, C, D, pupil='in'):
    """C == g * D with g independent of the PUPIL sample.  Kernels are indexed [input i, j, output k, l].
    pupil='in'  (pupil -> focal plane): g may depend on the focal (output) sample:  C[i,j,k,l] D[0,0,k,l] == C[0,0,k,l] D[i,j,k,l]
    pupil='out' (focal plane -> pupil): g may depend on the focal (input) sample:   C[i,j,k,l] D[i,j,0,0] == C[i,j,0,0] D[i,j,k,l]
    (a factor that varied over the pupil would be a spurious wavefront: e.g. one wave of tilt for a focal origin off by one sample)"""
    shp = H.np.shape(C)
    m, n = shp[0], shp[1]
    lhs = H.zeros(shp)
    rhs = H.zeros(shp)
    for i in range(m):
        for j in range(n):
            if pupil == 'in':
                lhs[i, j] = C[i, j] * D[0, 0]
                rhs[i, j] = C[0, 0] * D[i, j]
            else:
                lhs[i, j] = C[i, j] * D[i, j, 0, 0]
                rhs[i, j] = C[i, j, 0, 0] * D[i, j]
    H.eq(label, lhs, rhs)


def axis_coords(H, rd, shape):
    """1-D coordinate vectors (y, x) of a RichData as exposed to the user."""
    X, Y = rd.x, rd.y
    return [Y[i, 0] for i in range(shape[0])], [X[0, j] for j in range(shape[1])]


def run(cfg, H):
    prop = H.mod('prysm.propagation')
    RD = H.mod('prysm._richdata').RichData
    dx, wvl, efl = H.param('dx'), H.param('wvl'), H.param('efl')
    kind = cfg['kind']
    if kind == 'conv':
        N, odx = H.param('N'), H.param('odx')
        a = prop.pupil_sample_to_psf_sample(dx, N, wvl, efl)
        H.eq('psf_sample_to_pupil_sample(pupil_sample_to_psf_sample(dx)) == dx', prop.psf_sample_to_pupil_sample(a, N, wvl, efl), dx)
        b = prop.psf_sample_to_pupil_sample(odx, N, wvl, efl)
        H.eq('pupil_sample_to_psf_sample(psf_sample_to_pupil_sample(dx)) == dx', prop.pupil_sample_to_psf_sample(b, N, wvl, efl), odx)
        H.eq('dx_psf == lambda*efl/(N*dx_pupil)', a, wvl * efl / (N * dx))
        H.eq('Q_for_sampling', prop.Q_for_sampling(N * dx, efl, wvl, odx), wvl * efl / (N * dx) / odx)
        return
    m, n = cfg['in']
    if kind == 'fft':
        from fractions import Fraction as _F
        import math as _m
        Qf = _F(cfg['Q'])
        Q = H.frac(Qf.numerator, Qf.denominator) if Qf.denominator != 1 else int(Qf)
        M, N = _m.ceil(m * Qf), _m.ceil(n * Qf)     # pad2d pads to ceil(n*Q)
        holder = {}
        if cfg['dir'] == 'fwd':
            def fn(f):
                out = prop.Wavefront(f, wvl, dx, space='pupil').focus(efl, Q=Q)
                holder['dx'] = out.dx
                return out.data
            sign = -1
        else:
            def fn(f):
                out = prop.Wavefront(f, wvl, dx, space='psf').unfocus(efl, Q=Q)
                holder['dx'] = out.dx
                return out.data
            sign = 1
        C = H.linear_map(fn, (m, n))
        # input coordinates: the padded array is (M,N) with the data centred; sample (i,j) sits at (i - m//2, j - n//2)*dx
        in_y = [(i - m // 2) * dx for i in range(m)]
        in_x = [(j - n // 2) * dx for j in range(n)]
        rd = RD(H.zeros((M, N), complex_=False), holder['dx'], wvl)
        out_y, out_x = axis_coords(H, rd, (M, N))
        D = physical_kernel(H, (m, n), (M, N), in_y, in_x, out_y, out_x, wvl, efl, sign)
        proportional(H, 'kernel in physical coordinates (reported dx)', C, D, pupil='in' if cfg['dir'] == 'fwd' else 'out')
    else:
        M, N = cfg['out']
        odx = H.param('odx')
        if cfg['shift'] == 'sym':
            sx, sy = H.param('sx'), H.param('sy')
            shift = (sx, sy)
        else:
            sx = sy = 0
            shift = (0, 0)
        holder = {}
        if cfg['dir'] == 'fwd':
            def fn(f):
                out = prop.Wavefront(f, wvl, dx, space='pupil').focus_fixed_sampling(efl, odx, (M, N), shift=shift, method=cfg['method'])
                holder['dx'] = out.dx
                return out.data
            sign = -1
        else:
            def fn(f):
                out = prop.Wavefront(f, wvl, dx, space='psf').unfocus_fixed_sampling(efl, odx, (M, N), shift=shift, method=cfg['method'])
                holder['dx'] = out.dx
                return out.data
            sign = 1
        C = H.linear_map(fn, (m, n))
        H.eq('reported dx is the requested dx', holder['dx'], odx)
        in_y = [(i - m // 2) * dx for i in range(m)]
        in_x = [(j - n // 2) * dx for j in range(n)]
        rd = RD(H.zeros((M, N), complex_=False), holder['dx'], wvl)
        out_y, out_x = axis_coords(H, rd, (M, N))
        out_y = [v - sy for v in out_y]
        out_x = [v - sx for v in out_x]
        D = physical_kernel(H, (m, n), (M, N), in_y, in_x, out_y, out_x, wvl, efl, sign)
        # inverse direction WITH a shift: the library moves both planes' windows by the same number of samples (its matrix-DFT convention,
        # see C05), which the property does not speak about; only the relation between focal position and pupil tilt is required there
        strict_inv = cfg['dir'] == 'inv' and cfg['shift'] == 'zero'
        proportional(H, 'kernel in physical coordinates (requested dx, shift in output units)', C, D, pupil='out' if strict_inv else 'in')
