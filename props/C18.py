"""C18 -- segmented apertures and mask primitives (partial: what does not go through qhull point location)."""
import itertools

ID = 'C18'
FILES = ['prysm/geometry.py', 'prysm/segmented.py', 'prysm/coordinates.py']
FUNCTIONS = ['geometry.circle/annulus/offset_circle/rectangle(multiples of 90 deg)/rotated_ellipse/truecircle/_generate_vertices',
             'segmented.hex_ring/hex_to_xy/hex_neighbor/_local_window', 'segmented.CompositeHexagonalAperture.compose_opd', 'segmented.CompositeKeystoneAperture.compose_opd']
STUBS = ['np.hypot/np.sqrt -> sqrt atoms', 'np.cos/np.sin of an angle atom -> its rational (cos, sin)', 'comparisons on arrays stay symbolic booleans until used',
         'scipy.spatial.Delaunay point location is NOT modelled']
EXPLANATION = ('Primitives are evaluated at a SYMBOLIC sample point with symbolic parameters (radius, centre, widths, orientation) and the returned '
               'membership predicate must be equivalent to the analytic inequality (a statement about all points, stronger than a statement about '
               'grid samples); monotonicity in the size parameter and the point symmetry of each shape are decided the same way. Polygon vertices '
               'lie on the circle, are equally spaced and rotate with the rotation argument. Hex-lattice helpers: ring i has 6i distinct cube '
               'coordinates at distance i, centres are sqrt(3)*radius apart. compose_opd is linear in the coefficients and confined to the '
               'segment whose local mask covers a sample (masks given).')
BOUNDS = {'quick': 'primitives at one symbolic point (2-point arrays); polygons with 3..8 sides; rings <= 4; compose_opd with 3 segments on a 4x6 grid',
          'thorough': 'polygons with 3..12 sides; rings <= 6'}
OUTSIDE = ('the rasterised tiling itself -- no sample in two segments, mask == union of segment masks, segment area, regular_polygon / spider / keystone '
           'membership -- is produced by scipy.spatial.Delaunay(...).find_simplex (qhull, compiled) or by rotations of polar angles on concrete float '
           'grids: nothing symbolic is left to decide there; rectangle at general angles and spider (sums of angle atoms)')
NDERIVED = 40
MAX_PATHS = 64


def configs(tier):
    q = tier == 'quick'
    out = [{'name': n, 'kind': n} for n in ('circle', 'annulus', 'offset_circle', 'rectangle0', 'rectangle90', 'rectangle180', 'rectangle270', 'rectangle-90', 'rectangle360', 'ellipse', 'truecircle')]
    for s in range(3, (8 if q else 12) + 1):
        out.append({'name': 'vertices-%d' % s, 'kind': 'vertices', 'sides': s})
    for i in range(1, (4 if q else 6) + 1):
        out.append({'name': 'hex-ring-%d' % i, 'kind': 'hexring', 'ring': i})
    out.append({'name': 'local-window', 'kind': 'window'})
    out.append({'name': 'compose-opd', 'kind': 'opd'})
    out.append({'name': 'compose-opd-keystone', 'kind': 'opd_keystone'})
    return out


def params(cfg):
    k = cfg['kind']
    base = [('x', {}), ('y', {})]
    if k == 'circle':
        return [('r', {'nonneg': True}), ('R', {'nonneg': True}), ('R2', {'nonneg': True})]
    if k == 'annulus':
        return [('r', {'nonneg': True}), ('Ri', {'nonneg': True}), ('Ro', {'nonneg': True})]
    if k == 'offset_circle':
        return base + [('cx', {}), ('cy', {}), ('R', {'nonneg': True}), ('R2', {'nonneg': True})]
    if k.startswith('rectangle'):
        return base + [('w', {'pos': True}), ('h', {'pos': True}), ('w2', {'pos': True})]
    if k == 'ellipse':
        return base + [('a', {'pos': True}), ('b', {'pos': True}), ('wang', {'gt': 0, 'lt': 1})]
    if k == 'truecircle':
        return [('r', {'nonneg': True}), ('R', {'pos': True}), ('R2', {'pos': True})]
    if k == 'vertices':
        return [('rad', {'pos': True}), ('rot', {}), ('cx', {}), ('cy', {})]
    if k == 'hexring':
        return [('rad', {'pos': True})]
    if k == 'window':
        return [('c0', {}), ('c1', {}), ('dx', {'pos': True})]
    return []


def iff(a, b):
    return (a & b) | ((~a) & (~b))


def implies(a, b):
    return (~a) | b


def run(cfg, H):
    np = H.np
    geo = H.mod('prysm.geometry')
    k = cfg['kind']
    sym = H.mode == 'symbolic'

    def member(arr, idx=0):
        v = np.asarray(arr).reshape(-1)[idx] if not sym else np.asarray(arr, dtype=object).reshape(-1)[idx]
        return v if sym else bool(v)

    if k == 'circle':
        r, R, R2 = H.param('r'), H.param('R'), H.param('R2')
        m = member(geo.circle(R, H.asarray([r, r])))
        H.holds('circle: member <=> r <= R', iff(m, r <= R) if sym else (m == (r <= R)))
        m2 = member(geo.circle(R2, H.asarray([r, r])))
        H.holds('circle grows monotonically with its radius', implies((R <= R2) & m, m2) if sym else ((not (R <= R2 and m)) or m2))
    elif k == 'annulus':
        r, Ri, Ro = H.param('r'), H.param('Ri'), H.param('Ro')
        m = member(geo.annulus(Ri, Ro, H.asarray([r, r])))
        H.holds('annulus: member <=> Ri <= r <= Ro', iff(m, (Ri <= r) & (r <= Ro)) if sym else (m == (Ri <= r <= Ro)))
    elif k == 'offset_circle':
        x, y, cx, cy, R, R2 = [H.param(n) for n in ('x', 'y', 'cx', 'cy', 'R', 'R2')]
        X, Y = H.asarray([[x, x]]), H.asarray([[y, y]])
        m = member(geo.offset_circle(R, X, Y, (cx, cy)))
        d2 = (x - cx) * (x - cx) + (y - cy) * (y - cy)
        H.holds('offset_circle: member <=> (x-cx)^2 + (y-cy)^2 <= R^2', iff(m, d2 <= R * R) if sym else (m == (d2 <= R * R)))
        # point symmetry about the centre
        Xm, Ym = H.asarray([[2 * cx - x, x]]), H.asarray([[2 * cy - y, y]])
        mm = member(geo.offset_circle(R, Xm, Ym, (cx, cy)))
        H.holds('offset_circle is point-symmetric about its centre', iff(m, mm) if sym else (m == mm))
        m2 = member(geo.offset_circle(R2, X, Y, (cx, cy)))
        H.holds('offset_circle grows monotonically with its radius', implies((R <= R2) & m, m2) if sym else ((not (R <= R2 and m)) or m2))
    elif k.startswith('rectangle'):
        x, y, w, h, w2 = [H.param(n) for n in ('x', 'y', 'w', 'h', 'w2')]
        X, Y = H.asarray([[x, x]]), H.asarray([[y, y]])
        ang = int(k[len('rectangle'):])
        m = member(geo.rectangle(w, X, Y, height=h, angle=ang))
        if ang % 180 == 0:
            want = (x <= w) & (x >= -w) & (y <= h) & (y >= -h)
        else:
            want = (y <= w) & (y >= -w) & (x <= h) & (x >= -h)
        H.holds('rectangle(angle=%d): member <=> |x| <= half-width and |y| <= half-height (axes swapped at 90)' % ang, iff(m, want) if sym else (m == bool(want)))
        ms = member(geo.rectangle(w, -X, -Y, height=h, angle=ang))
        H.holds('rectangle is point-symmetric', iff(m, ms) if sym else (m == ms))
        msq = member(geo.rectangle(w, X, Y, angle=ang))
        wantsq = (x <= w) & (x >= -w) & (y <= w) & (y >= -w)
        H.holds('rectangle without height is a square', iff(msq, wantsq) if sym else (msq == bool(wantsq)))
        m2 = member(geo.rectangle(w2, X, Y, height=h, angle=ang))
        H.holds('rectangle grows monotonically with its width', implies((w <= w2) & m, m2) if sym else ((not (w <= w2 and m)) or m2))
    elif k == 'ellipse':
        x, y, a, b = [H.param(n) for n in ('x', 'y', 'a', 'b')]
        th = H.angle('wang')
        if sym:
            H.assume(b <= a, 'minor axis not larger than major axis (documented precondition)')
        elif not (b <= a):
            return
        X, Y = H.asarray([[x, x]]), H.asarray([[y, y]])
        out = geo.rotated_ellipse(a, b, X, Y, major_axis_angle=-th * 180 / H.pi)
        c, s = H.cos(th), H.sin(th)
        u, v = x * c + y * s, x * s - y * c
        inside = (u * u / (a * a) + v * v / (b * b)) <= 1
        val = np.asarray(out, dtype=object).reshape(-1)[0] if sym else float(np.asarray(out).reshape(-1)[0])
        if sym:
            # the routine returns 1 inside / 0 outside: it branched on the inequality, so on each path the value is concrete
            H.holds('rotated_ellipse: value 1 <=> inside the rotated ellipse', inside if val == 1 else ~inside)
        else:
            H.holds('rotated_ellipse: value 1 <=> inside the rotated ellipse', (val == 1) == bool(inside))
    elif k == 'truecircle':
        r, R, R2 = H.param('r'), H.param('R'), H.param('R2')
        arr = H.asarray([[r, r], [r, r]])
        v = np.asarray(geo.truecircle(R, arr), dtype=object if sym else float).reshape(-1)[0]
        H.le('truecircle >= 0', 0, v)
        H.le('truecircle <= 1', v, 1)
        v2 = np.asarray(geo.truecircle(R2, arr), dtype=object if sym else float).reshape(-1)[0]
        if sym:
            H.assume(R <= R2, 'R <= R2')
            H.le('truecircle grows monotonically with its radius', v, v2)
        elif R <= R2:
            H.le('truecircle grows monotonically with its radius', v, v2)
    elif k == 'vertices':
        n = cfg['sides']
        rad, rot, cx, cy = [H.param(x) for x in ('rad', 'rot', 'cx', 'cy')]
        V = H.asarray(geo._generate_vertices(n, rad, (cx, cy), rot * 180 / H.pi))
        H.shape_is('vertices shape', V, (n, 2))
        d2 = (V[:, 0] - cx) * (V[:, 0] - cx) + (V[:, 1] - cy) * (V[:, 1] - cy)
        H.eq('vertices lie on the circle', d2, rad * rad + 0 * d2)
        ch = [(V[i, 0] - V[(i + 1) % n, 0]) ** 2 + (V[i, 1] - V[(i + 1) % n, 1]) ** 2 for i in range(n)]
        H.eq('vertices are equally spaced', H.asarray(ch), ch[0] + 0 * H.asarray(ch))
        V0 = H.asarray(geo._generate_vertices(n, rad, (cx, cy), 0))
        c, s = H.cos(rot), H.sin(rot)
        # x = R sin(phi + rot), y = R cos(phi + rot): a rotation of the vertex set by -rot about the centre
        xr = (V0[:, 0] - cx) * c + (V0[:, 1] - cy) * s + cx
        yr = -(V0[:, 0] - cx) * s + (V0[:, 1] - cy) * c + cy
        H.eq('rotation argument rotates the vertex set about the centre', V, H.np.stack([H.asarray(xr), H.asarray(yr)], axis=1))
        H.eq('centroid of the vertices is the centre', H.asarray([np.sum(V[:, 0]) * H.frac(1, n), np.sum(V[:, 1]) * H.frac(1, n)]), H.asarray([cx, cy]))
    elif k == 'hexring':
        seg = H.mod('prysm.segmented')
        i = cfg['ring']
        rad = H.param('rad')
        ring = seg.hex_ring(i)
        H.holds('ring %d has 6*%d hexes' % (i, i), len(ring) == 6 * i)
        H.holds('cube coordinates are distinct', len({(h.q, h.r, h.s) for h in ring}) == len(ring))
        H.holds('cube coordinates sum to zero and sit at distance i', all(h.q + h.r + h.s == 0 and max(abs(h.q), abs(h.r), abs(h.s)) == i for h in ring))
        for rot in (90, 0):
            pts = [seg.hex_to_xy(h, rad, rot) for h in ring] + [seg.hex_to_xy(seg.Hex(0, 0, 0), rad, rot)]
            d2s = []
            for (a, b) in itertools.combinations(range(len(pts)), 2):
                dx_, dy_ = pts[a][0] - pts[b][0], pts[a][1] - pts[b][1]
                d2s.append(dx_ * dx_ + dy_ * dy_)
            # squared distances are integer multiples of 3 rad^2, never below it
            for d2 in d2s[:40]:
                H.le('centres are at least sqrt(3)*radius apart (rot=%d)' % rot, 3 * rad * rad, d2)
            first = pts[0]
            if rot == 90:
                H.eq('first element of the ring is north (rot=90)', H.asarray([first[0], first[1]]), H.asarray([0 * rad, H.sqrt(3) * i * rad]))
    elif k == 'window':
        seg = H.mod('prysm.segmented')
        c0, c1, dx = H.param('c0'), H.param('c1'), H.param('dx')
        X = H.zeros((8, 9), complex_=False)
        sy, sx = seg._local_window(4, 4, (c0, c1), dx, 2, X, X)
        for nm, sl, ext in (('y', sy, 8), ('x', sx, 9)):
            H.le('window %s start >= 0' % nm, 0, sl.start)
            H.le('window %s stop <= extent' % nm, sl.stop, ext)
            H.le('window %s start <= stop' % nm, sl.start, sl.stop)
            H.le('window %s is at most 2*samples wide' % nm, sl.stop - sl.start, 4)
    elif k == 'opd_keystone':
        seg = H.mod('prysm.segmented')
        import numpy as _np
        ap = object.__new__(seg.CompositeKeystoneAperture)
        ap.x = H.zeros((4, 6), complex_=False)
        # the centre window is a square around the centre circle: it overlaps the windows of the first ring
        cwin = (slice(1, 3), slice(2, 4))
        cmask = _np.array([[1, 1], [1, 0]])
        wins = [(slice(0, 2), slice(0, 3)), (slice(1, 4), slice(3, 6))]
        masks = [_np.array([[1, 1, 0], [1, 0, 0]]), _np.array([[0, 0, 1], [0, 1, 1], [0, 1, 0]])]
        ap.center_window, ap.center_mask = cwin, (H.asarray(cmask) if sym else cmask.astype(float))
        ap.segment_windows = wins
        ap.segment_masks = [H.asarray(m) if sym else m.astype(float) for m in masks]
        nb = 2
        allw = [cwin] + wins
        ap.opd_bases = [H.np.stack([H.asarray(H.rarray('b%d_%d' % (s_, j), (w[0].stop - w[0].start, w[1].stop - w[1].start))) for j in range(nb)])
                        for s_, w in enumerate(allw)]
        cc = [H.content('cc_%d' % j) for j in range(nb)]
        sc = [[H.content('c%d_%d' % (s_, j)) for j in range(nb)] for s_ in range(2)]
        ref = H.zeros((4, 6), complex_=False)
        for s_, (w, m, co) in enumerate(zip(allw, [cmask] + masks, [cc] + sc)):
            for i in range(m.shape[0]):
                for j in range(m.shape[1]):
                    if m[i, j]:
                        gi, gj = w[0].start + i, w[1].start + j
                        ref[gi, gj] = ref[gi, gj] + sum(co[b] * ap.opd_bases[s_][b][i, j] for b in range(nb))
        H.eq('keystone compose_opd == sum over centre and segments of mask * (coefficients . basis)', ap.compose_opd(cc, sc), ref)
        prior = H.rarray('prior', (4, 6))
        into = ap.compose_opd(cc, sc, out=H.asarray(prior.copy()))
        H.eq('keystone: composing into an existing map (out=) adds to it', into, prior + ref)
    elif k == 'opd':
        seg = H.mod('prysm.segmented')
        ap = object.__new__(seg.CompositeHexagonalAperture)
        ap.x = H.zeros((4, 6), complex_=False)
        import numpy as _np
        wins = [(slice(0, 2), slice(0, 3)), (slice(1, 4), slice(2, 5)), (slice(2, 4), slice(4, 6))]
        masks = [_np.array([[1, 1, 0], [1, 0, 0]]), _np.array([[0, 0, 1], [0, 1, 1], [0, 1, 0]]), _np.array([[0, 1], [1, 1]])]
        ap.windows = wins
        ap.local_masks = [H.asarray(m) if sym else m.astype(float) for m in masks]
        nb = 2
        ap.opd_bases = [H.np.stack([H.asarray(H.rarray('b%d_%d' % (s, j), (w[0].stop - w[0].start, w[1].stop - w[1].start))) for j in range(nb)])
                        for s, w in enumerate(wins)]
        coefs = [[H.content('c%d_%d' % (s, j)) for j in range(nb)] for s in range(3)]
        out = ap.compose_opd(coefs)
        ref = H.zeros((4, 6), complex_=False)
        owner = _np.full((4, 6), -1)
        for s, (w, m) in enumerate(zip(wins, masks)):
            for i in range(m.shape[0]):
                for j in range(m.shape[1]):
                    if m[i, j]:
                        gi, gj = w[0].start + i, w[1].start + j
                        owner[gi, gj] = s
                        ref[gi, gj] = ref[gi, gj] + sum(coefs[s][b] * ap.opd_bases[s][b][i, j] for b in range(nb))
        H.eq('compose_opd == sum over segments of mask * (coefficients . basis), zero elsewhere', out, ref)
        prior = H.rarray('prior', (4, 6))
        into = ap.compose_opd(coefs, out=H.asarray(prior.copy()))
        H.eq('composing into an existing map (out=) adds to it', into, prior + ref)
        # a unit piston on one segment changes only that segment
        pist = [[H.content('p%d' % s), 0 * H.content('p%d' % s)] for s in range(3)]
        ap.opd_bases = [H.np.stack([H.asarray(1 + 0 * b[0]), H.asarray(0 * b[0])]) for b in ap.opd_bases]
        out2 = ap.compose_opd(pist)
        ref2 = H.zeros((4, 6), complex_=False)
        for gi in range(4):
            for gj in range(6):
                if owner[gi, gj] >= 0:
                    ref2[gi, gj] = pist[owner[gi, gj]][0]
        H.eq('a piston on a segment appears on exactly the samples of that segment', out2, ref2)
