"""C11 -- Zernike and XY index conventions are bijections onto valid orders (bit-precise)."""
import os
import sys
import time
import json
import subprocess
import multiprocessing as mp

ID = 'C11'
FILES = ['prysm/polynomials/zernike.py', 'prysm/polynomials/xy.py', 'prysm/mathops.py']
FUNCTIONS = ['zernike.ansi_j_to_nm', 'zernike.nm_to_ansi_j', 'zernike.fringe_to_nm', 'zernike.nm_to_fringe', 'zernike.noll_to_nm',
             'xy.xy_j_to_mn', 'mathops.sign/is_odd']
STUBS = ['np.sqrt -> fp.sqrt RNE (binary64)', 'np.ceil/np.floor -> fp.roundToIntegral RTP/RTN', 'np.mod on floats -> a - floor(a/b)*b in binary64',
         'int(float) -> fp.to_sbv RTZ', 'Python int -> 64-bit signed bit-vector with no-overflow side conditions (themselves obligations)',
         'list[symbolic index] -> if-then-else chain over the concrete list']
TECHNIQUE = ('bit-precise symbolic execution of the lifted source: Python ints as 64-bit bit-vectors, floats as IEEE-754 binary64 '
             '(QF_BVFP), z3 decides each obligation for every index in the bound; xy_j_to_mn: CrossHair (symbolic execution with z3)')
EXPLANATION = ('The index functions are executed on a symbolic 64-bit index with floats modelled bit-precisely (sqrt/ceil/floor/division '
               'with their IEEE rounding), so an off-by-one of the float expression at large perfect squares / triangular numbers would be '
               'found.  Obligations: the float radial order equals its exact integer characterisation, validity of (n,m), inverse(forward) and '
               'forward(inverse) round trips, ANSI j = (n(n+2)+m)/2, Noll parity rule and injectivity per row; every bit-vector operation '
               'carries a no-overflow side obligation.')
BOUNDS = {'quick': 'ANSI/Fringe/Noll(stage A): every index < 2^17 (covers 10^5); inverse directions: n < 2^9; Noll rows (stage B) n <= 60; XY j <= 300 (CrossHair)',
          'thorough': 'indices < 2^18 split per binade; inverse directions n < 2^10; Noll rows n <= 90; XY j <= 500'}
OUTSIDE = 'indices >= the bound; nm_to_name, top_n, zernikes_to_magnitude_angle'
ASSUMPTIONS = ['Noll stage B (per row) uses the radial order proved in stage A as a lemma (n == n0 for every index of row n0)',
               'Fringe stage B runs the float arithmetic after ceil(sqrt(j)) in exact-float mode: each operation carries the side obligation that its exact result is a multiple of 1/4 below 2^50, hence returned exactly by the correctly-rounded IEEE operation; ceil(sqrt(j)) itself is the stage-A lemma']

VERIF = os.path.dirname(os.path.dirname(os.path.abspath(__file__)))


def configs(tier):
    q = tier == 'quick'
    K = 17 if q else 18        # thorough sized to finish (2^20 ran past an hour)
    out = []
    lo = 0
    # one query per binade above 2^12 (the float expressions get harder with the magnitude), one for everything below
    edges = [0, 1 << 12] + [1 << k for k in range(13, K + 1)]
    for a, b in zip(edges[:-1], edges[1:]):
        for fam in ('ansi', 'noll'):
            out.append({'name': '%s-fwd-[%d,%d)' % (fam, a, b), 'kind': 'fwd', 'family': fam, 'lo': a, 'hi': b})
        # Fringe: stage A (bit-precise): ceil(sqrt(j)) is the exact integer ceiling square root
        out.append({'name': 'fringe-ceilsqrt-[%d,%d)' % (a, b), 'kind': 'ceilsqrt', 'family': 'fringe', 'lo': a, 'hi': b})
    # Fringe: stage B (exact-float mode): the remaining float arithmetic is exact (side obligations) and the maps are mutually inverse
    out.append({'name': 'fringe-fwd-[1,%d)' % (1 << K), 'kind': 'fwd', 'family': 'fringe', 'lo': 1, 'hi': 1 << K})
    Kn = 9 if q else 10
    for fam in ('ansi', 'fringe'):
        out.append({'name': '%s-inv-n<%d' % (fam, 1 << Kn), 'kind': 'inv', 'family': fam, 'nmax': 1 << Kn})
    rows = 60 if q else 90
    step = 10 if q else 32
    for a in range(0, rows + 1, step):
        out.append({'name': 'noll-rows-%d-%d' % (a, min(a + step - 1, rows)), 'kind': 'noll_rows', 'rows': [a, min(a + step - 1, rows)]})
    out.append({'name': 'xy-crosshair', 'kind': 'xy', 'jmax': 300 if q else 500})
    return out


def params(cfg):
    return []


# ---------------------------------------------------------------------------------------------
# exact integer reference models (used symbolically on bit-vectors and concretely on Python ints)
# ---------------------------------------------------------------------------------------------

def ansi_row_ok(j, n):
    """n is the ANSI radial order of index j (0-based):  n(n+1)/2 <= j <= n(n+3)/2"""
    return (n * (n + 1) <= 2 * j, 2 * j <= n * (n + 3), n >= 0)


def noll_row_ok(j, n):
    """n is the Noll radial order of index j (1-based):  n(n+1)/2 < j <= (n+1)(n+2)/2"""
    return (n * (n + 1) < 2 * j, 2 * j <= (n + 1) * (n + 2), n >= 0)


# ---------------------------------------------------------------------------------------------
# concrete side (replay): evaluates the same statements with the real functions on Python ints
# ---------------------------------------------------------------------------------------------

def run(cfg, H):
    if H.mode != 'concrete':
        raise RuntimeError('C11 has its own symbolic driver')
    zer = H.mod('prysm.polynomials.zernike')
    k, fam = cfg['kind'], cfg.get('family')
    if k == 'ceilsqrt':
        import numpy as np
        import math
        j = H.iparam('idx')
        # through the real routine: m_n = n + |m| = 2 (ceil(sqrt(j)) - 1)
        n, m = zer.fringe_to_nm(j)
        c = (n + abs(m)) // 2 + 1
        H.holds('fringe: ceil(sqrt(j)) is the exact integer ceiling square root', (c - 1) ** 2 < j <= c * c, 'j=%d c=%d' % (j, c))
    elif k == 'fwd':
        j = H.iparam('idx')
        if fam == 'ansi':
            n, m = zer.ansi_j_to_nm(j)
            H.holds('ansi: radial order of j', all(ansi_row_ok(j, n)), 'j=%d -> n=%d' % (j, n))
            H.holds('ansi: (n,m) valid', abs(m) <= n and (n - m) % 2 == 0, '(%d,%d)' % (n, m))
            H.holds('ansi: nm_to_ansi_j(ansi_j_to_nm(j)) == j', zer.nm_to_ansi_j(n, m) == j)
        elif fam == 'fringe':
            n, m = zer.fringe_to_nm(j)
            H.holds('fringe: (n,m) valid', abs(m) <= n and (n - m) % 2 == 0, '(%d,%d)' % (n, m))
            H.holds('fringe: nm_to_fringe(fringe_to_nm(j)) == j', zer.nm_to_fringe(n, m) == j)
            H.holds('no 64-bit overflow / index in range on this path', True)
        else:
            n, m = zer.noll_to_nm(j)
            H.holds('noll: radial order of j', all(noll_row_ok(j, n)), 'j=%d -> n=%d' % (j, n))
    elif k == 'inv':
        n, m = H.iparam('n'), H.iparam('m')
        if fam == 'ansi':
            j = zer.nm_to_ansi_j(n, m)
            H.holds('ansi: j == (n(n+2)+m)/2', 2 * j == n * (n + 2) + m)
            H.holds('ansi: ansi_j_to_nm(nm_to_ansi_j(n,m)) == (n,m)', tuple(zer.ansi_j_to_nm(j)) == (n, m))
        else:
            j = zer.nm_to_fringe(n, m)
            H.holds('fringe: fringe_to_nm(nm_to_fringe(n,m)) == (n,m)', tuple(zer.fringe_to_nm(j)) == (n, m))
    elif k == 'noll_rows':
        j, j2 = H.iparam('idx'), H.iparam('idx2')
        n, m = zer.noll_to_nm(j)
        n2, m2 = zer.noll_to_nm(j2)
        H.holds('noll: (n,m) valid', abs(m) <= n and (n - m) % 2 == 0)
        H.holds('noll: even index <-> cosine (m >= 0), odd index <-> sine (m <= 0)', (m >= 0) if j % 2 == 0 else (m <= 0))
        H.holds('noll: distinct indices of a row give distinct m', not (n == n2 and j != j2 and m == m2))
        H.holds('noll: |m| non-decreasing along a row', not (n == n2 and j < j2 and abs(m) > abs(m2)))
    elif k == 'xy':
        xy = H.mod('prysm.polynomials.xy')
        j = H.iparam('j')
        m, n = xy.xy_j_to_mn(j)
        H.holds('xy: (m+n)(m+n+1)/2 + n + 1 == j and m,n >= 0', m >= 0 and n >= 0 and (m + n) * (m + n + 1) // 2 + n + 1 == j)


# ---------------------------------------------------------------------------------------------
# symbolic driver
# ---------------------------------------------------------------------------------------------

def _worker(job):
    cfg, qtimeout = job
    t0 = time.time()
    res = {'cfg': cfg, 'paths': 0, 'obligations': [], 'ce': [], 'tv2': [], 'notes': [], 'inconclusive': 0, 'samples': [],
           'solver': {'queries': 0, 'solver_time_s': 0.0}, 'assumptions': []}
    try:
        if cfg['kind'] == 'xy':
            _xy_crosshair(cfg, res)
        else:
            _bits(cfg, res, qtimeout)
    except Exception as e:   # noqa
        import traceback
        res['inconclusive'] += 1
        res['notes'].append('HARNESS-ERROR %s: %s\n%s' % (type(e).__name__, e, traceback.format_exc()[-1200:]))
    res['wall_s'] = round(time.time() - t0, 2)
    return res


def _bits(cfg, res, qtimeout):
    import z3
    from symx import dom_bits as B
    Fx = B.Fx
    k, fam = cfg['kind'], cfg.get('family')
    with B.Session() as S:
        zer = S.mod('prysm.polynomials.zernike')
        ctx = B.BCtx()
        idx = z3.BitVec('idx', B.W)
        idx2 = z3.BitVec('idx2', B.W)
        nv, mv = z3.BitVec('n', B.W), z3.BitVec('m', B.W)
        obligations = []     # filled per path: (label, z3 goal)

        def record(label, goal):
            obligations.append((label, goal))

        if fam == 'fringe' and k in ('fwd', 'inv'):
            ctx.fixed = True
        if k == 'ceilsqrt':
            ctx.pre = [idx >= max(cfg['lo'], 1), idx < cfg['hi']]
            witness = ['idx']

            def body():
                def hook(x):
                    raise B.Capture(x.toint())
                ctx.ceil_hook = hook
                zer.fringe_to_nm(Fx('i', idx))
                raise RuntimeError('fringe_to_nm did not call ceil')
        elif k == 'fwd':
            ctx.pre = [idx >= max(cfg['lo'], 0 if fam == 'ansi' else 1), idx < cfg['hi']]
            witness = ['idx']

            def body():
                j = Fx('i', idx)
                if fam == 'ansi':
                    n, m = zer.ansi_j_to_nm(j)
                    n, m = Fx.lift(n), Fx.lift(m)
                    record('ansi: radial order of j', z3.And(*ansi_row_ok(idx, n.z)))
                    record('ansi: (n,m) valid', z3.And(abs(m).z <= n.z, z3.SRem(n.z - m.z, 2) == 0))
                    record('ansi: nm_to_ansi_j(ansi_j_to_nm(j)) == j', Fx.lift(zer.nm_to_ansi_j(n, m)).z == idx)
                elif fam == 'fringe':
                    n, m = zer.fringe_to_nm(j)
                    n, m = Fx.lift(n), Fx.lift(m)
                    record('fringe: (n,m) valid', z3.And(abs(m).z <= n.z, z3.SRem(n.z - m.z, 2) == 0, n.z >= 0))
                    record('fringe: nm_to_fringe(fringe_to_nm(j)) == j', Fx.lift(zer.nm_to_fringe(n, m)).z == idx)
                else:
                    # stage A: only the float expression for the radial order (the rest of the routine is stage B)
                    def hook(x):
                        raise B.Capture(x.toint())
                    ctx.int_hook = hook
                    n = zer.noll_to_nm(j)
                    raise RuntimeError('noll_to_nm returned without converting its radial order through int()')
                return True
        elif k == 'inv':
            ctx.pre = [nv >= 0, nv < cfg['nmax'], mv >= -nv, mv <= nv, z3.SRem(nv - mv, 2) == 0]
            witness = ['n', 'm']

            def body():
                n, m = Fx('i', nv), Fx('i', mv)
                if fam == 'ansi':
                    j = Fx.lift(zer.nm_to_ansi_j(n, m))
                    record('ansi: j == (n(n+2)+m)/2', 2 * j.z == nv * (nv + 2) + mv)
                    n2, m2 = zer.ansi_j_to_nm(j)
                    record('ansi: ansi_j_to_nm(nm_to_ansi_j(n,m)) == (n,m)', z3.And(Fx.lift(n2).z == nv, Fx.lift(m2).z == mv))
                else:
                    j = Fx.lift(zer.nm_to_fringe(n, m))
                    n2, m2 = zer.fringe_to_nm(j)
                    record('fringe: fringe_to_nm(nm_to_fringe(n,m)) == (n,m)', z3.And(Fx.lift(n2).z == nv, Fx.lift(m2).z == mv))
                return True
        else:
            witness = ['idx', 'idx2']
            body = None

        if k == 'noll_rows':
            a, b = cfg['rows']
            for n0 in range(a, b + 1):
                lo, hi = n0 * (n0 + 1) // 2 + 1, (n0 + 1) * (n0 + 2) // 2
                ctx = B.BCtx()
                ctx.pre = [idx >= lo, idx <= hi, idx2 >= lo, idx2 <= hi]
                ctx.int_hook = lambda x, n0=n0: (ctx_lemma(ctx, x, n0))
                outs = {}

                def body_row():
                    r1 = zer.noll_to_nm(Fx('i', idx))
                    r2 = zer.noll_to_nm(Fx('i', idx2))
                    return r1, r2
                for trail, r, err in B.explore(ctx, body_row, max_paths=16):
                    if trail == 'budget' or err is not None or r is None:
                        res['inconclusive'] += 1
                        res['notes'].append('noll row %d: %s' % (n0, err if trail != 'budget' else 'path budget'))
                        continue
                    res['paths'] += 1
                    (n1, m1), (n2, m2) = r
                    m1, m2 = Fx.lift(m1).z, Fx.lift(m2).z
                    am1, am2 = z3.If(m1 < 0, -m1, m1), z3.If(m2 < 0, -m2, m2)
                    goals = [
                        ('noll: (n,m) valid', z3.And(am1 <= n0, z3.SRem(n0 - m1, 2) == 0, n1 == n0 if isinstance(n1, int) else True)),
                        ('noll: even index <-> cosine (m >= 0), odd index <-> sine (m <= 0)',
                         z3.If(z3.SRem(idx, 2) == 0, m1 >= 0, m1 <= 0)),
                        ('noll: distinct indices of a row give distinct m', z3.Implies(idx != idx2, m1 != m2)),
                        ('noll: |m| non-decreasing along a row', z3.Implies(idx < idx2, am1 <= am2)),
                    ]
                    _discharge(ctx, goals, trail, res, cfg, qtimeout, ['idx', 'idx2'], {'idx': idx, 'idx2': idx2}, extra='row n=%d' % n0)
            res['assumptions'] = ASSUMPTIONS
            return

        for trail, r, err in B.explore(ctx, body, max_paths=32):
            if trail == 'budget':
                res['inconclusive'] += 1
                res['notes'].append('path budget exhausted')
                break
            if err is not None:
                res['inconclusive'] += 1
                res['notes'].append('%s: %s' % (type(err).__name__, err))
                obligations.clear()
                continue
            res['paths'] += 1
            goals = list(obligations)
            obligations.clear()
            if k == 'fwd' and fam == 'noll':
                goals = [('noll: radial order of j', z3.And(*noll_row_ok(idx, r.z)))]
            if k == 'ceilsqrt':
                c = r.z
                goals = [('fringe: ceil(sqrt(j)) is the exact integer ceiling square root', z3.And(c >= 1, (c - 1) * (c - 1) < idx, idx <= c * c))]
            if ctx.side:
                goals.append(('no 64-bit overflow / index in range on this path', z3.And(*ctx.side)))
                ctx.side = []
            _discharge(ctx, goals, trail, res, cfg, qtimeout, witness, {'idx': idx, 'idx2': idx2, 'n': nv, 'm': mv})
        res['solver']['queries'] += ctx.queries
        res['solver']['solver_time_s'] += ctx.solver_time


def ctx_lemma(ctx, x, n0):
    """int(<float radial-order expression>) inside a row of the Noll table: concretised to n0 under the stage-A lemma."""
    # the float expression itself is not constrained here (it is the subject of stage A): within row n0 its value is n0
    return n0


def _discharge(ctx, goals, trail, res, cfg, qtimeout, witness, syms, extra=''):
    import z3
    if goals and not res.get('_vacuity_checked'):
        # reachability guard: preconditions + path + the first goal must be satisfiable, otherwise 'unsat' would be vacuous
        ctx.trail = list(trail)
        r0, _ = ctx.check([goals[0][1]], min(qtimeout, 60))
        res['_vacuity_checked'] = True
        res['solver']['queries'] += 1
        if r0 != 'sat':
            res['inconclusive'] += 1
            res['notes'].append('vacuity guard: preconditions + path + goal not shown satisfiable (%s)' % r0)
        else:
            res['twins_ok'] = res.get('twins_ok', 0) + 1
    for label, goal in goals:
        ctx.trail = list(trail)
        r, s = ctx.check([z3.Not(goal)], qtimeout)
        rec = {'label': label, 'kind': 'holds', 'status': r, 'path': res['paths'], 'atoms': len(witness), 'note': extra}
        res['obligations'].append(rec)
        res['solver']['queries'] += 1
        if r == 'sat':
            m = s.model()
            env = {}
            for w in witness:
                v = m.eval(syms[w], model_completion=True)
                env[w] = float(v.as_signed_long())
            res['ce'].append({'label': label, 'kind': 'holds', 'env': env, 'path': res['paths'], 'note': extra})
        elif r != 'unsat':
            res['inconclusive'] += 1
        if len(res['samples']) < 2:
            res['samples'].append({'label': label, 'kind': 'holds', 'status': r, 'lhs': str(goal)[:400], 'rhs': '', 'path_condition': [str(t[0])[:120] for t in trail][:4]})


def _xy_crosshair(cfg, res):
    """xy_j_to_mn against its closed form with CrossHair (symbolic execution of the real function with z3)."""
    mod = os.path.join(VERIF, '.tmp', 'c11_xy_contract.py')
    os.makedirs(os.path.dirname(mod), exist_ok=True)
    with open(mod, 'w') as f:
        f.write('import sys\nsys.path.insert(0, %r)\nfrom prysm.polynomials.xy import xy_j_to_mn\n\n\n'
                'def _xy_contract(j: int):\n    """\n    pre: 1 <= j <= %d\n    post: __return__[0] >= 0 and __return__[1] >= 0 and '
                '(__return__[0] + __return__[1]) * (__return__[0] + __return__[1] + 1) // 2 + __return__[1] + 1 == j\n    """\n'
                '    return xy_j_to_mn(j)\n' % (os.environ.get('PRYSM_REPO', '/repo'), cfg['jmax']))
    t = time.time()
    cmd = [sys.executable, '-m', 'crosshair', 'check', '--report_all', '--per_condition_timeout', '150' if cfg['jmax'] <= 300 else '1500', mod]
    p = subprocess.run(cmd, capture_output=True, text=True, timeout=3000)
    out = (p.stdout + p.stderr).strip()
    dt = time.time() - t
    res['paths'] = 1
    res['solver']['queries'] += 1
    res['solver']['solver_time_s'] += dt
    label = 'xy: (m+n)(m+n+1)/2 + n + 1 == j and m,n >= 0'
    if 'Confirmed over all paths' in out:
        status = 'unsat'
    elif 'false when calling' in out or 'error:' in out and 'when calling' in out:
        status = 'sat'
        import re
        mm = re.search(r'_xy_contract\((?:j\s*=\s*)?(\d+)\)', out)
        env = {'j': float(mm.group(1))} if mm else {'j': 1.0}
        res['ce'].append({'label': label, 'kind': 'holds', 'env': env, 'path': 1, 'note': out[-300:]})
    else:
        status = 'unknown'
        res['inconclusive'] += 1
        res['notes'].append('crosshair: ' + out[-300:])
    res['obligations'].append({'label': label, 'kind': 'holds', 'status': status, 'path': 1, 'atoms': 1, 'time_s': round(dt, 1),
                               'note': 'crosshair check --report_all: ' + out[-200:]})
    res['samples'].append({'label': label, 'kind': 'holds', 'status': status, 'lhs': 'crosshair contract on xy_j_to_mn, 1 <= j <= %d' % cfg['jmax'],
                           'rhs': '', 'path_condition': []})


def main(tier, seed, only=None):
    import re
    import random
    from symx import runner
    t0 = time.time()
    cfgs = configs(tier)
    if only:
        cfgs = [c for c in cfgs if re.search(only, c['name'])]
    random.Random(seed).shuffle(cfgs)
    qtimeout = 120 if tier == 'quick' else 1800
    os.environ['SYMX_BITS_WIDTH'] = '40' if tier == 'quick' else '64'
    jobs = [(c, qtimeout) for c in cfgs]
    ctxm = mp.get_context('fork')
    with ctxm.Pool(min(16, max(1, len(jobs)))) as pool:
        results = pool.map(_worker, jobs, chunksize=1)
    mod = sys.modules[__name__]
    return runner.finish('C11', mod, tier, seed, results, t0)
