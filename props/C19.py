"""C19 -- ray tracing obeys Snell's law and keeps rays on surfaces (partial: the single-step vector algebra)."""

ID = 'C19'
FILES = ['prysm/x/raytracing/spencer_and_murty.py', 'prysm/x/raytracing/surfaces.py', 'prysm/coordinates.py']
FUNCTIONS = ['spencer_and_murty.raytrace/intersect/newton_raphson_solve_s (planes)', 'spencer_and_murty.refract/reflect/transform_to_local_coords/transform_to_global_coords/_multi_dot',
             'surfaces.Surface.conic/sphere/plane .sag_normal', 'surfaces.surface_normal_from_cylindrical_derivatives',
             'surfaces.conic_sag/conic_sag_der/phi_spheroid', 'coordinates.make_rotation_matrix/cart_to_polar']
STUBS = ['np.sqrt -> sqrt atoms', 'np.arctan2 -> angle atom', 'np.cos/np.sin of rotation angles -> phasors', 'np.einsum/matmul on exact object arrays']
EXPLANATION = ('Ray directions are unit vectors given by a rational (stereographic) parametrisation, surface points, curvature, conic constant, '
               'indices and rotation angles are symbols. With the normal exactly as raytrace() passes it (the output of sag_normal): refracted and '
               'reflected directions have unit length, reflection mirrors about the normalised gradient, refraction satisfies n (S x N) = n\' (S\' x N) '
               'and S\' lies in the plane of incidence; the normal is the true gradient of the sag (engine derivative); the normal is finite on axis; '
               'frame transforms are exact rigid motions.')
BOUNDS = {'quick': 'single rays and batches of 2 rays; conic / sphere / plane surfaces; rotation matrices from three symbolic Euler angles; raytrace through 6 prescriptions of 2-3 tilted/decentred planes (mirror, refracting, non-bending; symbolic tilt, decentre, spacing, ray); off-axis conic normals (dx and dy variants); surface constructors carry position and tilt',
          'thorough': 'same, 10 prescriptions'}
OUTSIDE = ('that the Newton-Raphson loop converges onto the surface (float-tolerance termination after a data-dependent number of iterations: no '
           'bounded unrolling is meaningful for symbolic rays; for planes the first step is exact and the traced prescriptions use planes only), multi-surface '
           'prescriptions with curved surfaces, off-axis conics and Q-type surfaces (C09 covers their derivatives in part), rays travelling towards -z')
NDERIVED = 60
MAX_PATHS = 16
CFG_TIMEOUT = {'quick': 900, 'thorough': 3600}


def configs(tier):
    q = tier == 'quick'
    out = [{'name': 'refract-gradient-normal', 'kind': 'refract', 'normal': 'gradient'},
           {'name': 'refract-unit-normal', 'kind': 'refract', 'normal': 'unit'},
           {'name': 'reflect-gradient-normal', 'kind': 'reflect'},
           {'name': 'normal-is-gradient-conic', 'kind': 'normal', 'surf': 'conic'},
           {'name': 'normal-is-gradient-sphere', 'kind': 'normal', 'surf': 'sphere'},
           {'name': 'normal-plane', 'kind': 'normal', 'surf': 'plane'},
           {'name': 'normal-is-gradient-off-axis-conic-dy', 'kind': 'normal', 'surf': 'offaxis', 'off': 'dy'},
           {'name': 'normal-is-gradient-off-axis-conic-dx', 'kind': 'normal', 'surf': 'offaxis', 'off': 'dx'},
           {'name': 'on-axis-conic', 'kind': 'onaxis', 'surf': 'conic'},
           {'name': 'on-axis-sphere', 'kind': 'onaxis', 'surf': 'sphere'},
           {'name': 'surface-then-refract', 'kind': 'surf_refract'},
           {'name': 'surface-then-reflect', 'kind': 'surf_reflect'},
           {'name': 'frames', 'kind': 'frames'}, {'name': 'rotation-matrix', 'kind': 'rotmat'},
           {'name': 'surface-constructors-carry-position-and-tilt', 'kind': 'ctor'}]
    # Q-type (2D-Q freeform) surfaces: the slopes that become the surface normal are the derivatives of the sag (harness shared with C09)
    for off in ('none', 'dx', 'dy'):
        out.append({'name': 'q-type-surface-normal-%s' % off, 'kind': 'q2d_surface', 'off': off})
    # multi-surface prescriptions of tilted / decentred planes (the ray-plane intersection is exact after one Newton step): every mix of
    # tilted (T) and untilted (U) surfaces, reflecting (m), refracting (r) and non-bending (e)
    seqs = ['Tm,Ue', 'Ue,Tm', 'Tm,Um', 'Ur,Tm,Ue', 'Te,Ur', 'Tr,Ue'] if q else \
        ['Tm,Ue', 'Ue,Tm', 'Tm,Um', 'Ur,Tm,Ue', 'Te,Ur', 'Tr,Ue', 'Tm,Tm,Ue', 'Ue,Ue,Tm', 'Tr,Ur,Ue', 'Um,Tm,Um']
    for sq in seqs:
        out.append({'name': 'trace-planes-' + sq.replace(',', '-'), 'kind': 'trace', 'seq': sq})
    return out


def params(cfg):
    k = cfg['kind']
    if k == 'q2d_surface':
        from props import C09
        return C09.params(cfg)
    if k in ('refract', 'reflect'):
        return [('a', {}), ('b', {}), ('gx', {}), ('gy', {}), ('n', {'lo': 1}), ('np_', {'lo': 1})]
    if k in ('normal', 'onaxis'):
        return [('x', {'gt': 0, 'lt': 1}), ('y', {'gt': 0, 'lt': 1}), ('c', {'gt': 0, 'lt': 0.3}), ('k', {'gt': -2, 'lt': 0.5}),
                ('s', {'gt': -0.5, 'lt': 0.5})]
    if k in ('surf_refract', 'surf_reflect'):
        return [('a', {}), ('b', {}), ('x', {'gt': 0, 'lt': 1}), ('y', {'gt': 0, 'lt': 1}), ('c', {'gt': 0, 'lt': 0.3}), ('n', {'lo': 1}), ('np_', {'lo': 1})]
    if k == 'trace':
        ns = len(cfg['seq'].split(','))
        ps = [('a', {'gt': -0.3, 'lt': 0.3}), ('b', {'gt': -0.3, 'lt': 0.3}), ('px', {}), ('py', {}), ('n1', {'lo': 1, 'hi': 2})]
        for j in range(ns):
            ps += [('t%d' % j, {'gt': -0.2, 'lt': 0.2}), ('dy%d' % j, {}), ('z%d' % j, {'gt': 1 + 2 * j, 'lt': 2 + 2 * j})]
        return ps
    if k == 'ctor':
        return [('t', {'gt': -0.5, 'lt': 0.5}), ('px', {}), ('py', {}), ('pz', {}), ('c', {'gt': 0, 'lt': 0.3}), ('k', {'gt': -2, 'lt': 0.5}),
                ('s', {'gt': 0, 'lt': 0.5}), ('x', {'gt': 0, 'lt': 1}), ('y', {'gt': 0, 'lt': 1})]
    if k in ('frames', 'rotmat'):
        return [('al', {}), ('be', {}), ('ga', {}), ('px', {}), ('py', {}), ('pz', {})]
    return []


def unit_vector(H, a, b):
    """rational parametrisation of the unit sphere (every direction except (0,0,-1))"""
    d = 1 + a * a + b * b
    return [2 * a / d, 2 * b / d, (1 - a * a - b * b) / d]


def dot(u, v):
    return u[0] * v[0] + u[1] * v[1] + u[2] * v[2]


def cross(u, v):
    return [u[1] * v[2] - u[2] * v[1], u[2] * v[0] - u[0] * v[2], u[0] * v[1] - u[1] * v[0]]


def check_refraction(H, Sin, r, n, nprime, out, tag, sense=False):
    """out = refracted direction for incident unit vector Sin and (un-normalised) normal r"""
    H.eq(tag + ': |S\'|^2 == 1', dot(out, out), 1)
    # S' lies in the plane of incidence: S' . (S x r) == 0
    H.eq(tag + ': S\' lies in the plane of incidence', dot(out, cross(Sin, r)), 0)
    # Snell in vector form with the unit normal N = r/|r|:  n (S x r) == n' (S' x r)   (|r| cancels)
    lhs = cross(Sin, r)
    rhs = cross(out, r)
    H.eq(tag + ': n (S x N) == n\' (S\' x N)', H.asarray([n * v for v in lhs]), H.asarray([nprime * v for v in rhs]))
    if sense:
        # same side of the surface: (S.N)(S'.N) >= 0
        H.le(tag + ': the ray keeps crossing the surface in the same sense', 0, dot(Sin, r) * dot(out, r))


def check_reflection(H, Sin, r, out, tag):
    H.eq(tag + ': |S\'|^2 == 1', dot(out, out), 1)
    rr = dot(r, r)
    sr = dot(Sin, r)
    H.eq(tag + ': S\' == S - 2 (S.N) N with N the normalised gradient', H.asarray([o * rr for o in out]),
         H.asarray([Sin[i] * rr - 2 * sr * r[i] for i in range(3)]))


def run(cfg, H):
    np = H.np
    sm = H.mod('prysm.x.raytracing.spencer_and_murty')
    k = cfg['kind']
    if k == 'q2d_surface':
        from props import C09
        return C09.run(cfg, H)
    if k in ('refract', 'reflect'):
        a, b = H.param('a'), H.param('b')
        S = unit_vector(H, a, b)
        gx, gy = H.param('gx'), H.param('gy')
        n, nprime = H.param('n'), H.param('np_')
        if k == 'refract' and cfg['normal'] == 'unit':
            # a unit normal given by the same rational parametrisation
            r = unit_vector(H, gx, gy)
        else:
            r = [-gx, -gy, 1 + 0 * gx]      # what Surface.sag_normal returns: (-Fx, -Fy, 1)
        Sarr = H.asarray([S, S])
        rarr = H.asarray([r, r])
        if k == 'refract':
            if H.mode == 'symbolic':
                # below total internal reflection: 1 - mu^2 (1 - cos^2 I) > 0 with the unit normal
                cosI2 = dot(S, r) * dot(S, r) / dot(r, r)
                H.assume((1 - (n / nprime) * (n / nprime) * (1 - cosI2)) > 0, 'below total internal reflection')
                H.assume(dot(S, r) > 0, 'the ray travels towards +normal')
            out = sm.refract(n, nprime, Sarr, rarr)
            H.shape_is('refract shape', out, (2, 3))
            check_refraction(H, S, r, n, nprime, [out[0, i] for i in range(3)], 'refract')
            H.eq('rays of a batch are refracted independently', out[0], out[1])
        else:
            out = sm.reflect(Sarr, rarr)
            check_reflection(H, S, r, [out[0, i] for i in range(3)], 'reflect')
            out1 = sm.reflect(H.asarray(S), H.asarray(r))
            H.eq('reflect of a single ray', out1[0], out[0])
    elif k in ('normal', 'onaxis'):
        sf = H.mod('prysm.x.raytracing.surfaces')
        c, kk = H.param('c'), H.param('k')
        if cfg['surf'] == 'conic':
            surf = sf.Surface.conic(c, kk, 'refl', [0, 0, 0])
        elif cfg['surf'] == 'sphere':
            surf = sf.Surface.sphere(c, 'refl', [0, 0, 0], None)
            kk = 0
        elif cfg['surf'] == 'offaxis':
            sh = H.param('s')
            surf = sf.Surface.off_axis_conic(c, kk, 'refl', [0, 0, 0], dy=sh if cfg['off'] == 'dy' else 0, dx=sh if cfg['off'] == 'dx' else 0)
        else:
            surf = sf.Surface.plane('eval', [0, 0, 0])
        if k == 'onaxis':
            x = H.asarray([0 * c, H.param('x')])
            y = H.asarray([0 * c, 0 * c])
            z, der = surf.sag_normal(x, y)
            H.holds('the normal of the exactly on-axis ray is finite', not any(H.is_nan(v) or _nonfinite(H, v) for v in H.asarray(der[0]).reshape(-1)))
            H.holds('the sag of the exactly on-axis ray is finite', not (H.is_nan(H.asarray(z).reshape(-1)[0]) or _nonfinite(H, H.asarray(z).reshape(-1)[0])))
            if not any(H.is_nan(v) or _nonfinite(H, v) for v in H.asarray(der[0]).reshape(-1)):
                H.eq('on axis the normal is (0, 0, 1)', der[0], H.asarray([0, 0, 1]))
            return
        x, y = H.param('x'), H.param('y')
        px, py = x, y          # coordinates with respect to the parent vertex
        if cfg['surf'] == 'offaxis':
            px, py = (x + sh, y) if cfg['off'] == 'dx' else (x, y + sh)
        if H.mode == 'symbolic' and cfg['surf'] != 'plane':
            H.assume(1 - (1 + kk) * c * c * (px * px + py * py) > 0, 'the point is on the real part of the conic')
        z, der = surf.sag_normal(H.asarray([x]), H.asarray([y]))
        H.shape_is('normal shape', der, (1, 3))
        H.eq('third component of the normal is 1', der[0, 2], 1)
        if cfg['surf'] == 'plane':
            H.eq('plane: sag 0, normal (0,0,1)', H.asarray([z[0], der[0, 0], der[0, 1]]), H.asarray([0, 0, 0]))
            return
        if H.mode == 'symbolic':
            dzdx, dzdy = H.diff(z[0], 'x'), H.diff(z[0], 'y')
        else:
            from props.C09 import ridders
            dzdx = ridders(lambda t: float(surf.sag_normal(np.asarray([t]), np.asarray([y]))[0][0]), x, h=0.01)
            dzdy = ridders(lambda t: float(surf.sag_normal(np.asarray([x]), np.asarray([t]))[0][0]), y, h=0.01)
        H.eq('normal == (-dz/dx, -dz/dy, 1)', H.asarray([der[0, 0], der[0, 1]]), H.asarray([-dzdx, -dzdy]))
        # the sag satisfies the conic equation  c (x^2+y^2) - 2 z + (1+k) c z^2 == 0
        rsq = px * px + py * py
        H.eq('sag satisfies the conic equation', c * rsq - 2 * z[0] + (1 + kk) * c * z[0] * z[0], 0)
    elif k in ('surf_refract', 'surf_reflect'):
        sf = H.mod('prysm.x.raytracing.surfaces')
        a, b = H.param('a'), H.param('b')
        S = unit_vector(H, a, b)
        x, y, c = H.param('x'), H.param('y'), H.param('c')
        n, nprime = H.param('n'), H.param('np_')
        surf = sf.Surface.sphere(c, 'refr', [0, 0, 0], lambda wvl: nprime)
        if H.mode == 'symbolic':
            H.assume(1 - c * c * (x * x + y * y) > 0, 'the point is on the sphere')
        z, der = surf.sag_normal(H.asarray([x]), H.asarray([y]))
        r = [der[0, i] for i in range(3)]
        Sarr = H.asarray([S])
        if k == 'surf_refract':
            if H.mode == 'symbolic':
                cosI2 = dot(S, r) * dot(S, r) / dot(r, r)
                H.assume((1 - (n / nprime) * (n / nprime) * (1 - cosI2)) > 0, 'below total internal reflection')
                H.assume(dot(S, r) > 0, 'the ray travels towards +normal')
            out = sm.refract(n, nprime, Sarr, der)
            check_refraction(H, S, r, n, nprime, [out[0, i] for i in range(3)], 'refraction at a sphere with the normal from sag_normal',
                             sense=False)    # the inequality with nested radicals is beyond the solver here; decided in the 'refract' configurations
        else:
            out = sm.reflect(Sarr, der)
            check_reflection(H, S, r, [out[0, i] for i in range(3)], 'reflection at a sphere with the normal from sag_normal')
    elif k == 'trace':
        sf = H.mod('prysm.x.raytracing.surfaces')
        a, b = H.param('a'), H.param('b')
        S0 = unit_vector(H, a, b)
        P0 = [H.param('px'), H.param('py'), 0 * a]
        n1 = H.param('n1')
        surfs, normals, origins, kinds = [], [], [], []
        for j, code in enumerate(cfg['seq'].split(',')):
            tilted, typ = code[0] == 'T', {'m': 'refl', 'r': 'refr', 'e': 'eval'}[code[1]]
            t = H.param('t%d' % j)
            cs, sn = (1 - t * t) / (1 + t * t), 2 * t / (1 + t * t)          # rotation about x by the angle with tan(angle/2) = t
            R = H.asarray([[1 + 0 * t, 0 * t, 0 * t], [0 * t, cs, -sn], [0 * t, sn, cs]]) if tilted else None
            Pj = [0 * t, H.param('dy%d' % j), H.param('z%d' % j)]
            surfs.append(sf.Surface.plane(typ, H.asarray(Pj), n=(lambda wvl: n1) if typ == 'refr' else None, R=R))
            # the surface normal in global coordinates: R maps global to local, the local normal is z
            normals.append([0 * t, sn, cs] if tilted else [0 * t, 0 * t, 1 + 0 * t])
            origins.append(Pj)
            kinds.append(typ)
        Ph, Sh = sm.raytrace(surfs, H.asarray(P0), H.asarray(S0), H.frac(1, 2))
        H.shape_is('position history shape', Ph, (len(surfs) + 1, 3))
        nprev = 1
        for j in range(len(surfs)):
            Pp = [Ph[j, i] for i in range(3)]
            Pn = [Ph[j + 1, i] for i in range(3)]
            Sp = [Sh[j, i] for i in range(3)]
            Sn_ = [Sh[j + 1, i] for i in range(3)]
            N = normals[j]
            d = [Pn[i] - Pp[i] for i in range(3)]
            H.eq('surface %d: the hit point lies on the incoming ray' % j, H.asarray(cross(d, Sp)), H.asarray([0, 0, 0]))
            H.eq('surface %d: the hit point lies on the surface' % j, dot([Pn[i] - origins[j][i] for i in range(3)], N), 0)
            if kinds[j] == 'refl':
                check_reflection(H, Sp, N, Sn_, 'surface %d (mirror)' % j)
            elif kinds[j] == 'refr':
                check_refraction(H, Sp, N, nprev, n1, Sn_, 'surface %d (refraction)' % j)
                nprev = n1
            else:
                H.eq('surface %d does not bend the ray' % j, H.asarray(Sn_), H.asarray(Sp))
    elif k == 'ctor':
        sf = H.mod('prysm.x.raytracing.surfaces')
        t, c, kk, sh = H.param('t'), H.param('c'), H.param('k'), H.param('s')
        cs, sn = (1 - t * t) / (1 + t * t), 2 * t / (1 + t * t)
        R = H.asarray([[1 + 0 * t, 0 * t, 0 * t], [0 * t, cs, -sn], [0 * t, sn, cs]])
        P = H.asarray([H.param('px'), H.param('py'), H.param('pz')])
        idx = lambda wvl: 1.5    # noqa
        made = {'plane': sf.Surface.plane('refl', P, R=R), 'conic': sf.Surface.conic(c, kk, 'refl', P, R=R),
                'sphere': sf.Surface.sphere(c, 'refr', P, idx, R=R), 'off-axis conic': sf.Surface.off_axis_conic(c, kk, 'refl', P, dy=sh, R=R)}
        for nm, surf in made.items():
            H.holds('%s: the surface carries a tilt' % nm, surf.R is not None)
            if surf.R is not None:
                H.eq('%s: the surface carries the requested tilt' % nm, H.asarray(surf.R), R)
            H.eq('%s: the surface carries the requested position' % nm, H.asarray(surf.P), P)
        x, y = H.param('x'), H.param('y')
        if H.mode == 'symbolic':
            H.assume(1 - c * c * (x * x + y * y) > 0, 'the point is on the sphere')
        zs, ds = made['sphere'].sag_normal(H.asarray([x]), H.asarray([y]))
        zc, dc = sf.Surface.conic(c, 0, 'refl', P, R=R).sag_normal(H.asarray([x]), H.asarray([y]))
        H.eq('sphere == conic with k = 0 (sag)', zs, zc)
        H.eq('sphere == conic with k = 0 (normal)', ds, dc)
    elif k in ('frames', 'rotmat'):
        co = H.mod('prysm.coordinates')
        al, be, ga = H.param('al'), H.param('be'), H.param('ga')
        deg = 180 / H.pi
        R = co.make_rotation_matrix((al * deg, be * deg, ga * deg))
        R = H.asarray(R)
        I3 = H.asarray([[1, 0, 0], [0, 1, 0], [0, 0, 1]])
        H.eq('R R^T == I', R @ R.T, I3 + 0 * R)
        H.eq('det R == 1', _det3(R), 1)
        if k == 'rotmat':
            R0 = H.asarray(co.make_rotation_matrix((0 * al, 0 * al, 0 * al)))
            H.eq('zero angles give the identity', R0, I3 + 0 * R0)
            return
        P = H.asarray([H.param('px'), H.param('py'), H.param('pz')])
        X = H.rarray('X', (2, 3))
        Sd = H.rarray('S', (2, 3))
        Xl, Sl = sm.transform_to_local_coords(X, P, Sd, R)
        Xg, Sg = sm.transform_to_global_coords(Xl, P, Sl, R.T)
        H.eq('global(local(X)) == X', Xg, X)
        H.eq('global(local(S)) == S', Sg, Sd)
        H.eq('lengths of direction vectors are preserved', np.sum(Sl * Sl, axis=1), np.sum(Sd * Sd, axis=1))
        H.eq('distances between points are preserved', np.sum((Xl[0] - Xl[1]) * (Xl[0] - Xl[1])), np.sum((X[0] - X[1]) * (X[0] - X[1])))
        H.eq('angles between directions are preserved', np.sum(Sl[0] * Sl[1]), np.sum(Sd[0] * Sd[1]))
        Xl2, Sl2 = sm.transform_to_local_coords(X, P, Sd, None)
        H.eq('without rotation the transform is a translation', Xl2, X - P)


def _nonfinite(H, v):
    if H.mode == 'symbolic':
        from symx import symnp
        return isinstance(v, symnp._NaN)
    import math
    return not math.isfinite(float(v))


def _det3(R):
    return (R[0, 0] * (R[1, 1] * R[2, 2] - R[1, 2] * R[2, 1]) - R[0, 1] * (R[1, 0] * R[2, 2] - R[1, 2] * R[2, 0])
            + R[0, 2] * (R[1, 0] * R[2, 1] - R[1, 1] * R[2, 0]))
