"""C10 -- fast modal sums equal explicit sums; least-squares fit inverts synthesis."""
import itertools

ID = 'C10'
FILES = ['prysm/polynomials/__init__.py', 'prysm/polynomials/jacobi.py', 'prysm/polynomials/qpoly.py']
FUNCTIONS = ['polynomials.sum_of_2d_modes', 'polynomials.lstsq', 'jacobi.jacobi_sum_clenshaw', 'qpoly.clenshaw_qbfs',
             'qpoly.change_basis_Qbfs_to_Pn', 'qpoly.clenshaw_q2d', 'qpoly.change_of_basis_Q2d_to_Pnm',
             'qpoly.compute_z_zprime_Qbfs/Qcon/Q2d (value part)', 'qpoly.Q2d_nm_c_to_a_b']
STUBS = ['np.linalg.lstsq -> exact solution of the normal equations (unique when the Gram matrix is non-singular, decided exactly)',
         'np.tensordot/np.isfinite on exact object arrays']
EXPLANATION = ('Coefficient vectors are symbolic (one symbol per coefficient; sparsity patterns enumerated); every fast path is '
               'compared with the explicit sum of coefficient times single-order mode at a symbolic point. lstsq: data is '
               'synthesised from symbolic coefficients on a concrete rational grid with an enumerated NaN mask and the fit must '
               'return the coefficients.')
BOUNDS = {'quick': 'coefficient vectors of length 1..5; Q2d azimuthal orders m<=3 with every presence pattern of cosine/sine families for m<=2; lstsq grids 3x3,3x4 with 6 masks; coordinate buffers reused across calls (unchanged + second call)',
          'thorough': 'length 1..7; m<=4; lstsq grids up to 4x5 with 10 masks'}
OUTSIDE = 'rank-deficient fits; Interferogram.pvr (consumer)'
NDERIVED = 40
MAX_PATHS = 8


def configs(tier):
    q = tier == 'quick'
    out = []
    L = 5 if q else 7
    for ln in range(1, L + 1):
        for pattern in ('dense', 'last', 'first', 'alt'):
            for fam in ('jacobi', 'qbfs', 'qcon'):
                out.append({'name': '%s_sum-len%d-%s' % (fam, ln, pattern), 'kind': fam, 'len': ln, 'pattern': pattern})
    # Q2d: presence patterns of (cm0, a_m, b_m) families
    M = 2
    fam_lens = [0, 1, 3]
    for cm0 in (0, 2):
        for lens in itertools.product(fam_lens, repeat=2 * M):
            if not q or sum(1 for v in lens if v) <= 2 or lens in ((1, 1, 1, 1), (3, 3, 3, 3), (3, 1, 1, 3)):
                if cm0 == 0 and not any(lens):
                    continue
                out.append({'name': 'q2d_sum-c%d-a%s-b%s' % (cm0, ''.join(map(str, lens[:M])), ''.join(map(str, lens[M:]))),
                            'kind': 'q2d', 'cm0': cm0, 'a': list(lens[:M]), 'b': list(lens[M:])})
    out.append({'name': 'q2d_sum-m3', 'kind': 'q2d', 'cm0': 1, 'a': [0, 0, 2], 'b': [0, 0, 4]})
    # |m| == 1 switches on an extra alpha[3] correction when a family has more than 3 terms: cover 4..6 per family
    for ln in (4, 5, 6):
        out.append({'name': 'q2d_sum-m1-a%d' % ln, 'kind': 'q2d', 'cm0': 0, 'a': [ln], 'b': [0]})
        out.append({'name': 'q2d_sum-m1-b%d' % ln, 'kind': 'q2d', 'cm0': 0, 'a': [0], 'b': [ln]})
        out.append({'name': 'q2d_sum-m1-a%d-b%d' % (ln, 10 - ln), 'kind': 'q2d', 'cm0': 0, 'a': [ln], 'b': [10 - ln]})
    out.append({'name': 'q2d_pack-highm1', 'kind': 'pack', 'nms': [[3, -1], [0, 1]]})
    out.append({'name': 'q2d_pack-highm1b', 'kind': 'pack', 'nms': [[4, -1], [3, 1], [0, 0]]})
    if not q:
        out.append({'name': 'q2d_sum-m4', 'kind': 'q2d', 'cm0': 0, 'a': [0, 2, 0, 3], 'b': [1, 0, 0, 2]})
    # packer: lists of (n,m) with symbolic coefficients
    packs = [
        [(0, 0), (1, 0), (0, 1), (1, 1), (0, -1), (2, -1)],
        [(0, 1), (2, 1)],                      # cosine only
        [(0, -1), (1, -2)],                    # sine only
        [(0, 0), (2, 0)],                      # m=0 only
        [(1, 2), (0, -2), (3, 0)],
        [(0, 2)],
        [(2, -3), (0, 1)],
    ]
    for i, p in enumerate(packs):
        out.append({'name': 'q2d_pack-%d' % i, 'kind': 'pack', 'nms': [list(x) for x in p]})
    out.append({'name': 'sum_of_2d_modes', 'kind': 'modes', 'k': 3, 'shape': [2, 3]})
    out.append({'name': 'sum_of_2d_modes-1', 'kind': 'modes', 'k': 1, 'shape': [3, 2]})
    grids = [(3, 3), (3, 4)] if q else [(3, 3), (3, 4), (4, 4), (4, 5)]
    masks = ['none', 'corner', 'row', 'interior', 'checker', 'edge', 'inf', 'neginf+nan'] + ([] if q else ['col', 'two', 'diag', 'L'])
    for g in grids:
        for mk in masks:
            if mk == 'col' and g[1] < 4:
                continue      # a 3-column grid minus a column leaves two x values: 1, x, x^2 are collinear (rank-deficient fits are outside the claim)
            out.append({'name': 'lstsq-%dx%d-%s' % (g[0], g[1], mk), 'kind': 'lstsq', 'grid': list(g), 'mask': mk})
    return out


def params(cfg):
    k = cfg['kind']
    if k == 'jacobi':
        return [('alpha', {'gt': -1}), ('beta', {'gt': -1})]
    if k in ('q2d', 'pack'):
        return [('t', {})]
    return []


def coef_vec(H, name, ln, pattern):
    cs = [H.content('%s%d' % (name, i)) for i in range(ln)]
    if pattern == 'last':
        cs = [0 * c for c in cs[:-1]] + [cs[-1]]
    elif pattern == 'first':
        cs = [cs[0]] + [0 * c for c in cs[1:]]
    elif pattern == 'alt':
        cs = [c if i % 2 == 0 else 0 * c for i, c in enumerate(cs)]
    return cs


def mask_cells(kind, shape):
    m, n = shape
    if kind == 'none':
        return []
    if kind == 'corner':
        return [(0, 0)]
    if kind == 'row':
        return [(0, j) for j in range(n)]
    if kind == 'col':
        return [(i, n - 1) for i in range(m)]
    if kind == 'interior':
        return [(1, 1)]
    if kind == 'checker':
        return [(i, j) for i in range(m) for j in range(n) if (i + j) % 2 == 1 and (i, j) != (1, 0)][:3]
    if kind == 'edge':
        return [(0, 0), (m - 1, n - 1), (0, n - 1)]
    if kind == 'two':
        return [(0, 1), (2, 2)]
    if kind in ('inf', 'neginf+nan'):
        return [(0, 1), (m - 1, 0)]
    if kind == 'diag':
        return [(i, i) for i in range(min(m, n))][:2]
    if kind == 'L':
        return [(0, 0), (1, 0), (0, 1)]
    raise ValueError(kind)


def run(cfg, H):
    P = H.mod('prysm.polynomials')
    k = cfg['kind']
    if k == 'jacobi':
        a, b = H.param('alpha'), H.param('beta')
        s = coef_vec(H, 's', cfg['len'], cfg['pattern'])
        x = H.rarray('x', (2,))
        got = H.expect_no_raise('jacobi_sum_clenshaw-raises', lambda: P.jacobi_sum_clenshaw(s, a, b, x))
        if got is None:
            return
        ref = 0 * x
        for n, c in enumerate(s):
            ref = ref + c * P.jacobi(n, a, b, x)
        H.eq('jacobi_sum_clenshaw', got, ref)
    elif k in ('qbfs', 'qcon'):
        cs = coef_vec(H, 'c', cfg['len'], cfg['pattern'])
        u = H.rarray('u', (2,))
        base = P.Qbfs if k == 'qbfs' else P.Qcon
        ref = 0 * u
        for n, c in enumerate(cs):
            ref = ref + c * base(n, u)
        # the coordinate buffers are built once and reused, as a caller looping over coefficient sets does
        usq = u * u
        u0, usq0 = u.copy(), usq.copy()
        if k == 'qbfs':
            got = H.expect_no_raise('clenshaw_qbfs-raises', lambda: P.qpoly.clenshaw_qbfs(cs, usq))
            if got is not None:
                H.eq('clenshaw_qbfs', got, ref)
            fn = P.qpoly.compute_z_zprime_Qbfs
        else:
            fn = P.qpoly.compute_z_zprime_Qcon
        res = H.expect_no_raise('compute_z_zprime_%s-raises' % k, lambda: fn(cs, u, usq))
        if res is not None:
            H.eq('compute_z_zprime_%s value' % k, res[0], ref)
            H.eq('the caller\'s coordinate buffers are left unchanged', H.np.stack([H.asarray(u), H.asarray(usq)]), H.np.stack([H.asarray(u0), H.asarray(usq0)]))
            res2 = H.expect_no_raise('compute_z_zprime_%s-raises (second call)' % k, lambda: fn(cs, u, usq))
            if res2 is not None:
                H.eq('a second call on the same buffers gives the same sum', res2[0], ref)
            # the coefficients given as a floating array that the caller keeps using
            carr = H.asarray(list(cs)) if H.mode == 'symbolic' else H.np.array([float(c) for c in cs])
            carr0 = carr.copy()
            res3 = H.expect_no_raise('compute_z_zprime_%s-raises (array coefficients)' % k, lambda: fn(carr, u, usq))
            if res3 is not None:
                H.eq('compute_z_zprime_%s value (array coefficients)' % k, res3[0], ref)
                H.eq('the caller\'s coefficient array is left unchanged', carr, carr0)
    elif k == 'q2d':
        u = H.rarray('u', (2,))
        t = H.param('t') + 0 * u
        cm0 = [H.content('c%d' % i) for i in range(cfg['cm0'])]
        ams = [[H.content('a%d_%d' % (m + 1, i)) for i in range(ln)] for m, ln in enumerate(cfg['a'])]
        bms = [[H.content('b%d_%d' % (m + 1, i)) for i in range(ln)] for m, ln in enumerate(cfg['b'])]
        res = H.expect_no_raise('compute_z_zprime_Q2d-raises', lambda: P.qpoly.compute_z_zprime_Q2d(cm0, ams, bms, u, t))
        if res is None:
            return
        ref = 0 * u
        for n, c in enumerate(cm0):
            ref = ref + c * P.Q2d(n, 0, u, t)
        for m, (aa, bb) in enumerate(zip(ams, bms)):
            for n, c in enumerate(aa):
                ref = ref + c * P.Q2d(n, m + 1, u, t)
            for n, c in enumerate(bb):
                ref = ref + c * P.Q2d(n, -(m + 1), u, t)
        H.eq('compute_z_zprime_Q2d value', res[0], ref)
    elif k == 'pack':
        nms = [tuple(x) for x in cfg['nms']]
        coefs = [H.content('w%d' % i) for i in range(len(nms))]
        u = H.rarray('u', (2,))
        t = H.param('t') + 0 * u
        packed = H.expect_no_raise('Q2d_nm_c_to_a_b-raises', lambda: P.qpoly.Q2d_nm_c_to_a_b(nms, coefs))
        if packed is None:
            return
        cms, ams, bms = packed
        res = H.expect_no_raise('compute_z_zprime_Q2d-raises', lambda: P.qpoly.compute_z_zprime_Q2d(cms, ams, bms, u, t))
        if res is None:
            return
        ref = 0 * u
        for (n, m), c in zip(nms, coefs):
            ref = ref + c * P.Q2d(n, m, u, t)
        H.eq('pack+evaluate', res[0], ref)
    elif k == 'modes':
        shp = tuple(cfg['shape'])
        modes = [H.rarray('m%d' % i, shp) for i in range(cfg['k'])]
        w = [H.content('w%d' % i) for i in range(cfg['k'])]
        got = P.sum_of_2d_modes(modes, w)
        ref = 0 * modes[0]
        for mm, ww in zip(modes, w):
            ref = ref + ww * mm
        H.eq('sum_of_2d_modes', got, ref)
        got2 = P.sum_of_2d_modes(H.np.stack(modes), H.asarray(w))
        H.eq('sum_of_2d_modes(array)', got2, ref)
    elif k == 'lstsq':
        m, n = cfg['grid']
        np = H.np
        # concrete rational grid on [-1,1]^2, XY monomials 1, x, y, xy, x^2 as modes
        xs = [H.frac(2 * j - (n - 1), n - 1 + 2) for j in range(n)]
        ys = [H.frac(2 * i - (m - 1), m - 1 + 3) for i in range(m)]
        X = H.asarray([[xs[j] for j in range(n)] for i in range(m)])
        Y = H.asarray([[ys[i] for j in range(n)] for i in range(m)])
        modes = [X * 0 + 1, X, Y, X * Y, X * X]
        cs = [H.content('c%d' % i) for i in range(len(modes))]
        data = 0 * X
        for c, md in zip(cs, modes):
            data = data + c * md
        data = np.array(data, copy=True) if H.mode == 'concrete' else data.copy()
        for cnt, (i, j) in enumerate(mask_cells(cfg['mask'], (m, n))):
            if cfg['mask'] == 'inf':
                data[i, j] = H.inf
            elif cfg['mask'] == 'neginf+nan':
                data[i, j] = -H.inf if cnt == 0 else H.nan
            else:
                data[i, j] = H.nan
        fit = H.expect_no_raise('lstsq-raises', lambda: P.lstsq(modes, data))
        if fit is None:
            return
        H.eq('lstsq coefficients', fit, H.asarray(cs))
