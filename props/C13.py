"""C13 -- the PSD is power-normalised and band-limited RMS adds up."""
from fractions import Fraction

ID = 'C13'
FILES = ['prysm/interferogram.py', 'prysm/fttools.py', 'prysm/coordinates.py', 'prysm/_richdata.py']
FUNCTIONS = ['interferogram.psd', 'interferogram.make_window/window_2d_welch', 'interferogram.bandlimited_rms', 'Interferogram.psd/bandlimited_rms',
             'interferogram.render_synthetic_surface/synthesize_surface_from_psd', 'fttools.forward_ft_unit', 'coordinates.broadcast_1d_to_2d/cart_to_polar']
STUBS = ['fft.fft2/ifft2/fftshift -> definitions', 'np.hanning -> definition (phasor sums of rational angles)', 'np.trapezoid / np.trapz -> definition; which '
         'name exists is a configuration (numpy 2: trapezoid only; numpy 1: trapz only)', 'np.random.rand -> arbitrary values in (0,1)',
         'np.sqrt -> sqrt atoms; np.angle -> angle atoms']
EXPLANATION = ('The height map has independent symbolic entries (field-level where a square root of the data is taken), dx is a symbol, user '
               'windows are symbolic arrays; named windows are exact. Parseval: sum(psd) df_x df_y == sum((h w)^2)/sum(w^2) through the DFT '
               'definition; frequency axes; band-limited RMS: additivity in quadrature over adjacent bands, monotonicity, full band, with band '
               'edges placed in every gap between adjacent radial frequency-grid values (decided symbolically since the grid scales with 1/dx).')
BOUNDS = {'quick': 'PSD shapes in {2..4}^2 incl. non-square with user / hann / welch / automatic windows; band-limited RMS on 2x2, 2x3, 3x3 maps; both numpy namespaces; PSD frequency axes after an earlier synthesis with the same sampling (3 and 4 samples)',
          'thorough': 'PSD shapes up to 5x5; band-limited RMS up to 4x4'}
OUTSIDE = 'fit_psd (optimiser); the random-phase synthesis inside synthesize_surface_from_psd (replaced by an arbitrary surface: masking and rescaling are checked); the "within the weight of the outermost samples" tolerance is checked as the exact trapezoid-rule identity'
NDERIVED = 80
MAX_PATHS = 64
CFG_TIMEOUT = {'quick': 900, 'thorough': 3600}


def configs(tier):
    q = tier == 'quick'
    out = []
    shapes = [(2, 2), (2, 3), (3, 2), (3, 3), (4, 3), (4, 4)] if q else [(a, b) for a in range(2, 6) for b in range(2, 6)]
    for shp in shapes:
        for win in ('user', 'hann', 'welch', 'auto'):
            if win != 'user' and min(shp) < 3:
                continue
            if win == 'user' and shp[0] * shp[1] > 6:
                continue     # symbolic user windows square the polynomial degree: small maps only     # a Hann / Welch window on a 2-sample axis is identically zero there: the weighted mean square is 0/0
            out.append({'name': 'parseval-%dx%d-%s' % (shp[0], shp[1], win), 'kind': 'parseval', 'shape': list(shp), 'window': win})
    for shp in ([(3, 3), (3, 4)] if q else [(3, 3), (3, 4), (4, 3), (4, 4)]):
        for ns in ('numpy2', 'numpy1'):
            if q and ns == 'numpy1' and shp != (3, 3):
                continue
            out.append({'name': 'bandrms-%dx%d-%s' % (shp[0], shp[1], ns), 'kind': 'band', 'shape': list(shp), 'namespace': ns})
    out.append({'name': 'ifg-wrappers', 'kind': 'wrappers'})
    for mk in ('none', 'corner'):
        out.append({'name': 'synth-rms-3-%s' % mk, 'kind': 'synth', 'samples': 3, 'mask': mk})
    # integer-typed height maps (raw counts): the window must not inherit the map's integer type
    out.append({'name': 'psd-integer-map-3x3', 'kind': 'intmap', 'shape': [3, 3]})
    # history: a synthesis with the same sample count and spacing earlier in the process must not change what a later PSD reports
    for smp in (3, 4):
        out.append({'name': 'psd-after-synthesis-%d' % smp, 'kind': 'history', 'samples': smp})
    return out


def params(cfg):
    k = cfg['kind']
    ps = [('dx', {'pos': True})]
    if k == 'band':
        m, n = cfg['shape']
        ps += [('h_%d_%d' % (i, j), {}) for i in range(m) for j in range(n)]
    if k == 'wrappers':
        ps += [('h_%d_%d' % (i, j), {}) for i in range(3) for j in range(3)]
    if k == 'intmap':
        m, n = cfg['shape']
        ps += [('h_%d_%d' % (i, j), {'lo': -1000, 'hi': 1000}) for i in range(m) for j in range(n)]
    if k == 'history':
        s = cfg['samples']
        ps += [('z_%d_%d' % (i, j), {}) for i in range(s) for j in range(s)] + [('h_%d_%d' % (i, j), {}) for i in range(s) for j in range(s)]
    if k == 'synth':
        s = cfg['samples']
        ps += [('z_%d_%d' % (i, j), {}) for i in range(s) for j in range(s)] + [('rmsreq', {'pos': True}), ('size', {'pos': True})]
    return ps


def run(cfg, H):
    np = H.np
    I = H.mod('prysm.interferogram')
    k = cfg['kind']
    dx = H.param('dx')
    if k == 'parseval':
        m, n = cfg['shape']
        h = H.rarray('h', (m, n))
        win = cfg['window']
        if win == 'user':
            w = H.rarray('w', (m, n))
            warg = w
        elif win == 'auto':
            warg = None
            _assume_nonzero(H, h)
            w = I.make_window(h, dx, None)
        else:
            warg = win
            w = I.make_window(h, dx, win)
        ux, uy, p = I.psd(h, dx, warg)
        H.shape_is('psd shape', p, (m, n))
        dfx, dfy = 1 / (n * dx), 1 / (m * dx)
        H.eq('sum(psd) df_x df_y == window-weighted mean square', np.sum(p) * dfx * dfy * np.sum(w * w), np.sum((h * w) * (h * w)))
        H.eq('x frequency axis', ux[0, :], H.asarray([(j - n // 2) / (n * dx) for j in range(n)]))
        H.eq('y frequency axis', uy[:, 0], H.asarray([(i - m // 2) / (m * dx) for i in range(m)]))
        H.eq('psd is symmetric for real data: P(-nu) == P(nu)', p, _pointsym(H, p))
        # sample (k,l) of the PSD is the power at frequency (uy[k], ux[l]):  |sum h w E(-2 (y_k i/m + x_l j/n))|^2 / (sum(w^2) fs^2)
        hw = h * w
        ref = H.zeros((m, n), complex_=False)
        for kk in range(m):
            for ll in range(n):
                acc = 0
                for i in range(m):
                    for j in range(n):
                        acc = acc + hw[i, j] * H.E(-2 * (H.frac((kk - m // 2) * i, m) + H.frac((ll - n // 2) * j, n)))
                ref[kk, ll] = H.abs2(acc) * dx * dx
        H.eq('psd[k,l] * sum(w^2) is the power at the frequency the axes report for (k,l)', p * np.sum(w * w), ref)
    elif k == 'band':
        if cfg['namespace'] == 'numpy1':
            _numpy1_namespace(H)
        m, n = cfg['shape']
        h = H.zeros((m, n), complex_=False)
        for i in range(m):
            for j in range(n):
                h[i, j] = H.param('h_%d_%d' % (i, j))
        _assume_nonzero(H, h)
        ifg = I.Interferogram(h, dx=dx, wavelength=H.frac(6328, 10000))
        ps = ifg.psd()
        r, pd = ps.r, ps.data
        # radial grid values in units of 1/dx (concrete), sorted; band edges in the gaps between them
        import math
        vals = sorted({math.hypot((i - m // 2) / m, (j - n // 2) / n) for i in range(m) for j in range(n)})
        edges = []
        for a, b in zip(vals[:-1], vals[1:]):
            mid = Fraction((a + b) / 2).limit_denominator(64)
            if a < mid < b:
                edges.append(mid)
        edges = edges[:3]
        full = H.expect_no_raise('bandlimited_rms raises', lambda: I.bandlimited_rms(r, pd, flow=0, fhigh=None))
        if full is None:
            return
        H.eq('Interferogram.bandlimited_rms == bandlimited_rms(psd.r, psd.data)', ifg.bandlimited_rms(flow=0, fhigh=None), full)
        # full band: the trapezoid rule over both axes, each with ITS OWN frequency spacing
        dfy, dfx = 1 / (m * dx), 1 / (n * dx)
        H.eq('full-band rms^2 is the 2-D trapezoid integral of the PSD', full * full, _trapz2(H, pd, dfy, dfx))
        prev = 0
        for e in edges:
            fe = H.frac(e.numerator, e.denominator) / dx
            lo = I.bandlimited_rms(r, pd, flow=0, fhigh=fe)
            hi = I.bandlimited_rms(r, pd, flow=fe, fhigh=None)
            H.eq('rms^2(0,f) + rms^2(f,max) == rms^2(0,max) at f=%s/dx' % e, lo * lo + hi * hi, full * full)
            H.le('widening a band never decreases it (f=%s/dx)' % e, lo, full)
            # period form of the same band
            # periods: wavelengths longer than 1/f are the frequencies below f, and the other way round
            lo2 = I.bandlimited_rms(r, pd, wllow=1 / fe, wlhigh=None)
            H.eq('band given as a short-period limit == band (0, f) (f=%s/dx)' % e, lo2, lo)
            hi2 = I.bandlimited_rms(r, pd, wllow=None, wlhigh=1 / fe)
            H.eq('band given as a long-period limit == band (f, max) (f=%s/dx)' % e, hi2, hi)
    elif k == 'wrappers':
        h = H.zeros((3, 3), complex_=False)
        for i in range(3):
            for j in range(3):
                h[i, j] = H.param('h_%d_%d' % (i, j))
        _assume_nonzero(H, h)
        ifg = I.Interferogram(h, dx=dx, wavelength=H.frac(6328, 10000))
        ps = ifg.psd()
        ux, uy, p = I.psd(h, dx)
        H.eq('Interferogram.psd data', ps.data, p)
        H.eq('Interferogram.psd x', ps.x, ux)
        H.eq('Interferogram.psd dx', ps.dx, 1 / (3 * dx))
    elif k == 'intmap':
        m, n = cfg['shape']
        H.enable_dtype_model()
        raw = H.asarray([[H.param('h_%d_%d' % (i, j)) for j in range(n)] for i in range(m)])
        hi_ = np.asarray(raw).astype(np.int32)
        hf = hi_ * H.frac(1)                       # the same counts as a floating map
        for win in ('welch',):
            uxi, uyi, pi_ = I.psd(hi_, dx, win)
            uxf, uyf, pf_ = I.psd(hf, dx, win)
            H.eq('PSD of an integer-typed map == PSD of the same map as floats (%s window)' % win, pi_, pf_)
            wi = I.make_window(hi_, dx, win)
            wf = I.make_window(hf, dx, win)
            H.eq('the %s window does not depend on the type of the map' % win, wi * H.frac(1), wf)
    elif k == 'history':
        s = cfg['samples']
        size = 6                       # concrete: dxg = size / (samples - 1) is 3 or 2
        dxg = H.frac(size, s - 1)
        Z = H.zeros((s, s), complex_=False)
        h = H.zeros((s, s), complex_=False)
        for i in range(s):
            for j in range(s):
                Z[i, j] = H.param('z_%d_%d' % (i, j))
                h[i, j] = H.param('h_%d_%d' % (i, j))
        orig = I.synthesize_surface_from_psd
        I.synthesize_surface_from_psd = lambda psd, nux, nuy: (nux, nuy, Z.copy())
        try:
            I.render_synthetic_surface(size, s, rms=None, mask=None, psd_fcn=lambda nu: 1 + nu * nu)
        finally:
            I.synthesize_surface_from_psd = orig
        ux, uy, p = I.psd(h, dxg, 'welch' if s > 2 else None)
        H.eq('x frequency axis after an earlier synthesis', ux[0, :], H.asarray([(j - s // 2) / (s * dxg) for j in range(s)]))
        H.eq('y frequency axis after an earlier synthesis', uy[:, 0], H.asarray([(i - s // 2) / (s * dxg) for i in range(s)]))
    elif k == 'synth':
        s = cfg['samples']
        mask = None
        if cfg['mask'] == 'corner':
            import numpy as _np
            mask = _np.ones((s, s))
            mask[0, 0] = 0
            mask[1, 2] = 0
        rq, size = H.param('rmsreq'), H.param('size')
        # the random synthesis itself (random phases through an FFT) is replaced by an ARBITRARY surface z: the masking and the
        # rescaling to the requested rms are what the clause is about
        Z = H.zeros((s, s), complex_=False)
        for i in range(s):
            for j in range(s):
                Z[i, j] = H.param('z_%d_%d' % (i, j))
        orig = I.synthesize_surface_from_psd
        I.synthesize_surface_from_psd = lambda psd, nux, nuy: (nux, nuy, Z.copy())
        try:
            x, y, z = I.render_synthetic_surface(size, s, rms=rq, mask=mask, psd_fcn=lambda nu: 1 + nu * nu * size * size)
        finally:
            I.synthesize_surface_from_psd = orig
        U = H.mod('prysm.util')
        got = U.rms(z)
        H.eq('synthesised surface has exactly the requested rms over its valid samples', got * got, rq * rq)
        H.shape_is('synthesised surface shape', z, (s, s))
        if mask is not None:
            H.holds('masked samples are invalid', bool(H.is_nan(z[0, 0])) and bool(H.is_nan(z[1, 2])))


def _assume_nonzero(H, h):
    """The automatic window looks for exactly-zero samples in the corners of the map; maps with exact zeros there are a set of
    measure zero and only select the other (Welch) window, which is checked on its own."""
    if H.mode == 'symbolic':
        for v in H.np.asarray(h, dtype=object).reshape(-1):
            H.assume(v != 0, 'no sample of the height map is exactly zero (automatic window choice)')


def _pointsym(H, p):
    m, n = H.np.shape(p)
    out = H.zeros((m, n), complex_=False)
    for i in range(m):
        for j in range(n):
            out[i, j] = p[(2 * (m // 2) - i) % m, (2 * (n // 2) - j) % n]
    return out


def _trapz2(H, pd, dfy, dfx):
    m, n = H.np.shape(pd)
    tot = 0
    for i in range(m):
        wi = H.frac(1, 2) if (i in (0, m - 1) and m > 1) else 1
        for j in range(n):
            wj = H.frac(1, 2) if (j in (0, n - 1) and n > 1) else 1
            tot = tot + pd[i, j] * wi * wj
    return tot * dfy * dfx * (0 if (m == 1 or n == 1) else 1)


def _numpy1_namespace(H):
    """Backend namespace of a numpy 1.x runtime: trapz exists, trapezoid does not."""
    mo = H.mod('prysm.mathops')
    real = mo.np._srcmodule

    class _NS:
        def __getattr__(self, k):
            if k == 'trapezoid':
                raise AttributeError("module 'numpy' has no attribute 'trapezoid'")
            if k == 'trapz':
                return getattr(real, 'trapezoid')
            return getattr(real, k)
    mo.np._srcmodule = _NS()
