"""C15 -- image formation obeys the convolution theorem; the MTF is a valid MTF."""

ID = 'C15'
FILES = ['prysm/convolution.py', 'prysm/otf.py', 'prysm/fttools.py', 'prysm/coordinates.py']
FUNCTIONS = ['convolution.conv', 'convolution.apply_transfer_functions', 'otf.transform_psf/mtf_from_psf/ptf_from_psf/otf_from_psf',
             'fttools.forward_ft_unit', 'coordinates.optimize_xy_separable/cart_to_polar']
STUBS = ['fft.fft2/ifft2/fftshift/ifftshift -> definitions with exact roots of unity', 'np.angle -> angle atom (cos, sin) = (re, im)/|z|',
         'abs of a complex field value -> sqrt atom of re^2+im^2']
EXPLANATION = ('Object, PSF and transfer-function arrays have independent symbolic entries. conv is checked for bilinearity, commutativity, '
               'unit impulse, circular translation by an impulse offset and multiplicativity of totals; lists of transfer functions against their '
               'product; callables of (fx,fy,fr,ft) are polynomial maps of the exact frequency grids. For the MTF the PSF samples are '
               'non-negative field-level symbols: MTF[n//2]=1, point symmetry, OTF = MTF*exp(i*PTF), and MTF<=1 as a solver-decided inequality.')
BOUNDS = {'quick': "conv / transfer functions: shapes in [1..4]^2 (subset incl. non-square, odd/even); MTF identities shapes up to 3x3, inequality up to 2x3; the library's jitter transfer function as a callable in lists (2x3); OTF/MTF/PTF on 4x2 and 2x4",
          'thorough': 'the quick set plus convolution / transfer-function algebra on 1x3, 3x1, 2x4, 4x2, 1x5, 5x1 (MTF <= 1 on 3x3 and 4x4 convolutions did not finish in 25 minutes)'}
OUTSIDE = 'degredations.py, objects.py, detector.olpf_ft/pixel_ft (consumers of the same routines); float rounding'
NDERIVED = 40
MAX_PATHS = 8
CFG_TIMEOUT = {'quick': 900, 'thorough': 3600}


def configs(tier):
    q = tier == 'quick'
    shapes = [(1, 1), (1, 2), (2, 2), (2, 3), (3, 2), (3, 3), (4, 3), (4, 4)]
    if not q:
        shapes += [(1, 3), (3, 1), (2, 4), (4, 2), (1, 5), (5, 1)]      # larger sets did not finish in 45 minutes on 16 cores
    out = []
    for (m, n) in shapes:
        out.append({'name': 'conv-algebra-%dx%d' % (m, n), 'kind': 'conv', 'shape': [m, n]})
        out.append({'name': 'conv-impulse-%dx%d' % (m, n), 'kind': 'impulse', 'shape': [m, n]})
        for shift in (True, False):
            out.append({'name': 'tf-%dx%d-%s' % (m, n, 'shifted' if shift else 'unshifted'), 'kind': 'tf', 'shape': [m, n], 'shift': shift})
    # the library's own transfer functions as callables in one list (they are handed the same frequency arrays)
    for (m, n) in [(2, 3)]:
        out.append({'name': 'tf-library-callables-%dx%d' % (m, n), 'kind': 'tflib', 'shape': [m, n]})
    # (4x2, 2x4: per-axis different n//2)
    for (m, n) in [(1, 2), (2, 2), (2, 3), (3, 2), (3, 3), (4, 2), (2, 4)]:
        out.append({'name': 'mtf-%dx%d' % (m, n), 'kind': 'mtf', 'shape': [m, n]})
    for (m, n) in [(1, 2), (2, 2), (1, 3), (2, 3)]:
        out.append({'name': 'mtf-le-1-%dx%d' % (m, n), 'kind': 'mtf_le', 'shape': [m, n]})
    return out


def params(cfg):
    if cfg['kind'] == 'tf':
        return [('dx', {'pos': True})]
    if cfg['kind'] == 'tflib':
        return [('dx', {'pos': True}), ('s1', {'pos': True}), ('s2', {'pos': True}), ('w', {'pos': True})]
    if cfg['kind'] in ('mtf', 'mtf_le'):
        m, n = cfg['shape']
        return [('dx', {'pos': True})] + [('h_%d_%d' % (i, j), {'pos': True}) for i in range(m) for j in range(n)]
    return []


def roll2(H, a, sy, sx):
    """circular translation: out[i,j] = a[(i-sy) mod m, (j-sx) mod n]"""
    m, n = H.np.shape(a)
    out = H.zeros((m, n), complex_=False)
    for i in range(m):
        for j in range(n):
            out[i, j] = a[(i - sy) % m, (j - sx) % n]
    return out


def run(cfg, H):
    cv = H.mod('prysm.convolution')
    np = H.np
    m, n = cfg['shape']
    k = cfg['kind']
    if k == 'conv':
        o1, o2 = H.rarray('o', (m, n)), H.rarray('p', (m, n))
        h1, h2 = H.rarray('h', (m, n)), H.rarray('g', (m, n))
        a, b = H.content('a'), H.content('b')
        c11 = cv.conv(o1, h1)
        H.shape_is('conv shape', c11, (m, n))
        H.eq('linear in the object', cv.conv(a * o1 + b * o2, h1), a * c11 + b * cv.conv(o2, h1))
        H.eq('linear in the PSF', cv.conv(o1, a * h1 + b * h2), a * c11 + b * cv.conv(o1, h2))
        H.eq('commutative', c11, cv.conv(h1, o1))
        H.eq('total energy multiplies', np.sum(c11), np.sum(o1) * np.sum(h1))
        H.eq('associative', cv.conv(cv.conv(o1, h1), h2), cv.conv(o1, cv.conv(h1, h2)))
    elif k == 'impulse':
        o = H.rarray('o', (m, n))
        cy, cx = m // 2, n // 2
        for py in range(m):
            for px in range(n):
                d = H.zeros((m, n), complex_=False)
                d[py, px] = 1
                got = cv.conv(o, d)
                H.eq('impulse at offset (%d,%d) translates the object by that offset' % (py - cy, px - cx), got, roll2(H, o, py - cy, px - cx))
    elif k == 'tflib':
        from functools import partial
        deg = H.mod('prysm.degredations')
        dx, s1, s2, w = H.param('dx'), H.param('s1'), H.param('s2'), H.param('w')
        o = H.rarray('o', (m, n))
        j1, j2 = partial(deg.jitter_ft, scale=s1), partial(deg.jitter_ft, scale=s2)

        def user(fr):                    # a caller's own callable of the radial frequency
            return 1 / (1 + w * fr * fr)

        def run_(tfs, obj=o):
            return cv.apply_transfer_functions(obj, dx, tfs, shift=True)
        H.eq('library callable first or last gives the same image', run_([j1, user]), run_([user, j1]))
        H.eq('a list of two library callables equals one after the other', run_([j1, j2]), run_([j2], run_([j1])))
        H.eq('two library callables commute', run_([j1, j2]), run_([j2, j1]))

        # a callable of the azimuthal frequency ft = atan2(fy, fx), against the same transfer function given as an array
        def azim(ft):
            return 2 + np.cos(ft)
        ref = H.zeros((m, n), complex_=False)
        for i in range(m):
            for j in range(n):
                fy_, fx_ = H.frac(i - m // 2, m) / dx, H.frac(j - n // 2, n) / dx
                if i == m // 2 and j == n // 2:
                    ref[i, j] = 3                      # atan2(0, 0) == 0
                else:
                    ref[i, j] = 2 + fx_ / H.sqrt(fx_ * fx_ + fy_ * fy_)
        H.eq('a callable of ft sees ft = atan2(fy, fx)', run_([azim]), run_([ref]))
    elif k == 'tf':
        shift = cfg['shift']
        dx = H.param('dx')
        o = H.rarray('o', (m, n))
        t1, t2 = H.carray('t', (m, n)), H.carray('u', (m, n))
        one = H.zeros((m, n), complex_=False) + 1
        r12 = cv.apply_transfer_functions(o, dx, [t1, t2], shift=shift)
        H.eq('list of transfer functions == their product', r12, cv.apply_transfer_functions(o, dx, [t1 * t2], shift=shift))
        H.eq('order of transfer functions does not matter', r12, cv.apply_transfer_functions(o, dx, [t2, t1], shift=shift))
        H.eq('all-ones transfer function is the identity', cv.apply_transfer_functions(o, dx, [one], shift=shift), o)
        H.eq('empty list is the identity', cv.apply_transfer_functions(o, dx, [], shift=shift), o)
        if shift:
            # same physical transfer function given in the other convention
            t1u = H.mod('prysm.mathops').fft.ifftshift(t1)
            H.eq('shifted and unshifted conventions agree', cv.apply_transfer_functions(o, dx, [t1], shift=True),
                 cv.apply_transfer_functions(o, dx, [t1u], shift=False))
        # callables evaluated on the exact frequency grids
        ftm = H.mod('prysm.fttools')
        fy1, fx1 = [ftm.forward_ft_unit(dx, s) for s in (m, n)]

        def tf_xy(fx, fy):
            return 1 + fx * dx * 2 + fy * fy * dx * dx * 3

        def tf_r(fr):
            return 1 + fr * fr * dx * dx
        FX = fx1[np.newaxis, :] + 0 * fy1[:, np.newaxis]
        FY = fy1[:, np.newaxis] + 0 * fx1[np.newaxis, :]
        want_xy = 1 + FX * dx * 2 + FY * FY * dx * dx * 3
        want_r = 1 + (FX * FX + FY * FY) * dx * dx
        H.eq('callable of (fx, fy) is evaluated on the frequency grid of the data',
             cv.apply_transfer_functions(o, dx, [tf_xy], shift=shift), cv.apply_transfer_functions(o, dx, [want_xy], shift=shift))
        H.eq('callable of fr', cv.apply_transfer_functions(o, dx, [tf_r, t1], shift=shift),
             cv.apply_transfer_functions(o, dx, [want_r * t1], shift=shift))
        if shift:
            H.eq('a callable (physical) transfer function gives the same image in both conventions',
                 cv.apply_transfer_functions(o, dx, [tf_xy], shift=True), cv.apply_transfer_functions(o, dx, [tf_xy], shift=False))
    elif k in ('mtf', 'mtf_le'):
        otf = H.mod('prysm.otf')
        dx = H.param('dx')
        h = H.zeros((m, n), complex_=False)
        for i in range(m):
            for j in range(n):
                h[i, j] = H.param('h_%d_%d' % (i, j))
        cy, cx = m // 2, n // 2
        mtf = otf.mtf_from_psf(h, dx).data
        if k == 'mtf_le':
            for i in range(m):
                for j in range(n):
                    H.le('MTF[%d,%d] <= 1' % (i, j), mtf[i, j], 1)
            return
        H.eq('MTF at zero frequency == 1', mtf[cy, cx], 1)
        # point symmetry about the origin sample (frequency -nu is index 2c - i modulo the length)
        sym = H.zeros((m, n), complex_=False)
        for i in range(m):
            for j in range(n):
                sym[i, j] = mtf[(2 * cy - i) % m, (2 * cx - j) % n]
        H.eq('MTF(-nu) == MTF(nu)', mtf, sym)
        o = otf.otf_from_psf(h, dx).data
        H.eq('OTF at zero frequency == 1', o[cy, cx], 1)
        H.eq('|OTF|^2 == MTF^2', H.abs2(o), mtf * mtf)
        ptf = otf.ptf_from_psf(h, dx).data
        H.eq('OTF == MTF * exp(i PTF)', o, mtf * H.exp(H.j * ptf))
        rd = otf.mtf_from_psf(h, dx)
        H.eq('frequency spacing of the MTF', rd.dx, 1000 / (m * dx))
