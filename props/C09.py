"""C09 -- derivative routines are the derivatives of the routines they name."""

ID = 'C09'
FILES = ['prysm/polynomials/jacobi.py', 'prysm/polynomials/cheby.py', 'prysm/polynomials/legendre.py',
         'prysm/polynomials/hermite.py', 'prysm/polynomials/laguerre.py', 'prysm/polynomials/zernike.py',
         'prysm/polynomials/qpoly.py', 'prysm/x/raytracing/surfaces.py']
FUNCTIONS = ['x.raytracing.surfaces.Q2d_and_der/off_axis_conic_sigma/off_axis_conic_sigma_der/off_axis_conic_der', '*_der of jacobi/legendre/cheby1-4/hermite_He/hermite_H/laguerre', 'zernike_nm_der', 'jacobi_sum_clenshaw_der (j<=3)',
             'clenshaw_qbfs_der', 'clenshaw_q2d_der', 'compute_z_zprime_Qbfs/Qcon/Q2d',
             'x.raytracing.surfaces.sphere_sag/_der, conic_sag/_der, off_axis_conic_sag/_der, off_axis_conic_sigma/_der']
STUBS = ['np.sqrt -> sqrt atoms; np.cos/np.sin -> phasors']
EXPLANATION = ('The value routine is executed on a symbolic point; the engine differentiates its symbolic output exactly '
               '(polynomial derivative, chain rule through phasors and sqrt atoms) and the derivative routine, executed on '
               'the same symbols, must equal it.  Coefficient vectors of the Clenshaw routines are symbolic.')
BOUNDS = {'quick': 'orders n<=8 (jacobi: n<=6, symbolic alpha/beta), zernike n<=5, Clenshaw lengths 1..5 and derivative order j<=3, Q2d m<=3; derivative sequence forms on 4 dense/sparse lists up to n=5; 2D-Q freeform surface slopes (symbolic point, c, k, R, shift; 5 coefficients)',
          'thorough': 'orders n<=16 (jacobi n<=10), zernike n<=8, Clenshaw lengths 1..7, j<=3, Q2d m<=4; der_seq on 6 lists up to n=8'}
OUTSIDE = 'derivative order j>3; orders above the bound; off_axis_conic_sag/_der and off_axis_conic_sigma/_der (radicand depends on cos t: not encodable in the phasor domain); Q2d_and_der'
NDERIVED = 40
MAX_PATHS = 8

ONE = {'jacobi': 2, 'legendre': 0, 'cheby1': 0, 'cheby2': 0, 'cheby3': 0, 'cheby4': 0, 'hermite_He': 0, 'hermite_H': 0,
       'laguerre': 1}


def configs(tier):
    q = tier == 'quick'
    out = []
    for fam, npar in ONE.items():
        nmax = (6 if q else 10) if fam == 'jacobi' else (8 if q else 16)
        for n in range(nmax + 1):
            out.append({'name': '%s_der-n%d' % (fam, n), 'kind': 'one', 'family': fam, 'n': n})
    # derivative sequence forms on dense and sparse order lists, against the derivative of the value routine
    N = 5 if q else 8
    for fam in ONE:
        for ns in ([list(range(N + 1)), [N], [1, 3, N], [0, 4, N]] if q else [list(range(N + 1)), [N], [1, 3, N], [0, 4, N], [2, 6], [3, 4, 7]]):
            out.append({'name': '%s_der_seq-%s' % (fam, '_'.join(map(str, ns))), 'kind': 'one_seq', 'family': fam, 'orders': ns})
    zn = 5 if q else 8
    for n in range(zn + 1):
        for m in range(-n, n + 1, 2):
            for norm in (True, False):
                out.append({'name': 'zernike_der-n%d-m%d-%s' % (n, m, 'norm' if norm else 'raw'), 'kind': 'zernike', 'n': n, 'm': m,
                            'norm': norm})
    L = 5 if q else 7
    for ln in range(1, L + 1):
        for pattern in ('dense', 'last', 'first'):
            out.append({'name': 'jacobi_clenshaw_der-len%d-%s' % (ln, pattern), 'kind': 'jclenshaw', 'len': ln, 'pattern': pattern, 'j': 3})
            out.append({'name': 'qbfs_zprime-len%d-%s' % (ln, pattern), 'kind': 'qbfs', 'len': ln, 'pattern': pattern})
            out.append({'name': 'qcon_zprime-len%d-%s' % (ln, pattern), 'kind': 'qcon', 'len': ln, 'pattern': pattern})
    for m in range(1, (3 if q else 4) + 1):
        # |m| == 1 uses an extra alpha[3] correction once a family has more than 3 terms: lengths must go past 5
        for la, lb in ((1, 1), (2, 1), (3, 3), (4, 2), (5, 6), (6, 5)) if m == 1 else ((1, 1), (2, 1), (3, 3), (4, 2)):
            out.append({'name': 'q2d_zprime-m%d-a%d-b%d' % (m, la, lb), 'kind': 'q2d', 'm': m, 'la': la, 'lb': lb})
    out.append({'name': 'q2d_zprime-mixed', 'kind': 'q2d_mixed'})
    # the 2D-Q freeform surface of the ray tracer: Q departure scaled by 1/sigma on a (shifted) base conic, normalisation radius != 1
    for off in ('none', 'dx', 'dy'):
        out.append({'name': 'q2d_surface_slopes-%s' % off, 'kind': 'q2d_surface', 'off': off})
    for s in ('sphere', 'conic'):
        out.append({'name': 'sag_der-%s' % s, 'kind': 'sag', 'surf': s})
    for s in ():    # off-axis conics: sqrt of a phasor-dependent radicand is not encodable yet (see OUTSIDE)
        for off in ('dx', 'dy'):     # documented precondition: only one of dx/dy may be non-zero
            out.append({'name': 'sag_der-%s-%s' % (s, off), 'kind': 'sag', 'surf': s, 'off': off})
    return out


def params(cfg):
    k = cfg['kind']
    if k in ('one', 'one_seq'):
        return [('alpha', {'gt': -1}), ('beta', {'gt': -1})][:ONE[cfg['family']]]
    if k == 'zernike':
        return [('t', {})]
    if k == 'jclenshaw':
        return [('alpha', {'gt': -1}), ('beta', {'gt': -1})]
    if k in ('q2d', 'q2d_mixed'):
        return [('t', {})]
    if k == 'q2d_surface':
        return [('x', {'gt': 0, 'lt': 1}), ('y', {'gt': 0, 'lt': 1}), ('c', {'gt': 0, 'lt': 0.3}), ('k', {'gt': -2, 'lt': 0.5}),
                ('R', {'gt': 1, 'lt': 3}), ('s', {'gt': -0.5, 'lt': 0.5})]      # decentres of either sign
    if k == 'sag':
        # curvature, conic constant, radial coordinate, azimuth, off-axis distances; keep the radicand positive
        return [('c', {'gt': 0, 'lt': 0.5}), ('k', {'gt': -2, 'lt': 0}), ('rho', {'gt': 0, 'lt': 1}), ('t', {}),
                ('dx', {'gt': 0, 'lt': 0.5}), ('dy', {'gt': 0, 'lt': 0.5})]
    return []


def ridders(f, x0, h=0.05):
    """Ridders' extrapolated central difference (concrete-mode derivative oracle)."""
    n = 8
    a = [[0.0] * n for _ in range(n)]
    a[0][0] = (f(x0 + h) - f(x0 - h)) / (2 * h)
    best, err = a[0][0], float('inf')
    for i in range(1, n):
        h /= 1.4
        a[0][i] = (f(x0 + h) - f(x0 - h)) / (2 * h)
        fac = 1.4 * 1.4
        for j in range(1, i + 1):
            a[j][i] = (a[j - 1][i] * fac - a[j - 1][i - 1]) / (fac - 1)
            fac *= 1.4 * 1.4
            e = max(abs(a[j][i] - a[j - 1][i]), abs(a[j][i] - a[j - 1][i - 1]))
            if e <= err:
                err, best = e, a[j][i]
        if abs(a[i][i] - a[i - 1][i - 1]) >= 2 * err:
            break
    return best


def deriv(H, f, name, order=1):
    """d^order f / d name^order at the current point; f maps the atom to a value."""
    if H.mode == 'symbolic':
        x = H.content(name)
        v = f(x)
        for _ in range(order):
            v = H.diff(v, name)
        return v
    x0 = H.content(name)
    if order == 1:
        return ridders(lambda z: float(H.np.real(f(z))), x0)
    # polynomial case: Chebyshev interpolant derivative (exact for polynomials of degree <= 24)
    np = H.np
    deg = 24
    k = np.arange(deg + 1)
    nodes = x0 + np.cos(np.pi * (k + 0.5) / (deg + 1))
    vals = np.array([float(np.real(f(z))) for z in nodes])
    ch = np.polynomial.chebyshev.Chebyshev.fit(nodes, vals, deg)
    return float(ch.deriv(order)(x0))


def coef_vec(H, name, ln, pattern):
    cs = [H.content('%s%d' % (name, i)) for i in range(ln)]
    if pattern == 'last':
        cs = [0 * c for c in cs[:-1]] + [cs[-1]]
    elif pattern == 'first':
        cs = [cs[0]] + [0 * c for c in cs[1:]]
    return cs


def run(cfg, H):
    P = H.mod('prysm.polynomials')
    k = cfg['kind']
    if k == 'one':
        fam, n = cfg['family'], cfg['n']
        pars = [H.param(p) for p in ('alpha', 'beta')[:ONE[fam]]]
        val, der = getattr(P, fam), getattr(P, fam + '_der')
        x = H.content('x')
        got = der(n, *pars, x)
        ref = deriv(H, lambda z: val(n, *pars, z), 'x')
        H.eq('%s_der' % fam, got, ref)
    elif k == 'one_seq':
        fam = cfg['family']
        pars = [H.param(p) for p in ('alpha', 'beta')[:ONE[fam]]]
        val, dseq = getattr(P, fam), getattr(P, fam + '_der_seq')
        x = H.content('x')
        outs = list(dseq(cfg['orders'], *pars, H.asarray([x])))      # the sequence forms take coordinate arrays
        H.holds('%s_der_seq returns one result per order' % fam, len(outs) == len(cfg['orders']))
        for nn, got in zip(cfg['orders'], outs):
            H.eq('%s_der_seq[n=%d]' % (fam, nn), got[0], deriv(H, lambda z, nn=nn: val(nn, *pars, z), 'x'))
    elif k == 'zernike':
        n, m, norm = cfg['n'], cfg['m'], cfg['norm']
        r = H.content('r')
        t = H.param('t')
        dr, dt = P.zernike_nm_der(n, m, r, t, norm=norm)
        H.eq('zernike d/dr', dr, deriv(H, lambda z: P.zernike_nm(n, m, z, t, norm=norm), 'r'))
        if H.mode == 'symbolic':
            ref_t = H.diff(P.zernike_nm(n, m, r, t, norm=norm), 't')
        else:
            ref_t = ridders(lambda z: float(P.zernike_nm(n, m, r, z, norm=norm)), t)
        H.eq('zernike d/dt', dt, ref_t)
    elif k == 'jclenshaw':
        a, b = H.param('alpha'), H.param('beta')
        s = coef_vec(H, 's', cfg['len'], cfg['pattern'])
        x = H.content('x')
        J = cfg['j']
        alphas = H.expect_no_raise('clenshaw_der-raises', lambda: P.jacobi_sum_clenshaw_der(s, a, b, x, j=J))
        if alphas is None:
            return

        def explicit(z):
            tot = 0
            for n, c in enumerate(s):
                tot = tot + c * P.jacobi(n, a, b, z)
            return tot
        H.eq('clenshaw sum', alphas[0][0], explicit(x))
        for jj in range(1, J + 1):
            H.eq('clenshaw d^%d' % jj, alphas[jj][0], deriv(H, explicit, 'x', jj))
    elif k in ('qbfs', 'qcon'):
        cs = coef_vec(H, 'c', cfg['len'], cfg['pattern'])
        u = H.content('u')
        fn = P.qpoly.compute_z_zprime_Qbfs if k == 'qbfs' else P.qpoly.compute_z_zprime_Qcon
        base = P.Qbfs if k == 'qbfs' else P.Qcon
        res = H.expect_no_raise('%s-raises' % k, lambda: fn(cs, u, u * u))
        if res is None:
            return
        z, zp = res

        def explicit(w):
            tot = 0
            for n, c in enumerate(cs):
                tot = tot + c * base(n, w)
            return tot
        H.eq('%s sag' % k, z, explicit(u))
        H.eq('%s d/du' % k, zp, deriv(H, explicit, 'u'))
    elif k in ('q2d', 'q2d_mixed'):
        u = H.content('u')
        t = H.param('t')
        if k == 'q2d':
            m = cfg['m']
            ams = [[] for _ in range(m)]
            bms = [[] for _ in range(m)]
            ams[m - 1] = [H.content('a%d' % i) for i in range(cfg['la'])]
            bms[m - 1] = [H.content('b%d' % i) for i in range(cfg['lb'])]
            cm0 = None
            terms = [(n, m, c) for n, c in enumerate(ams[m - 1])] + [(n, -m, c) for n, c in enumerate(bms[m - 1])]
        else:
            cm0 = [H.content('c0'), H.content('c1'), H.content('c2')]
            ams = [[H.content('a10'), H.content('a11')], [H.content('a20')]]
            bms = [[H.content('b10')], [H.content('b20'), H.content('b21'), H.content('b22')]]
            terms = [(n, 0, c) for n, c in enumerate(cm0)]
            for mi, (aa, bb) in enumerate(zip(ams, bms)):
                terms += [(n, mi + 1, c) for n, c in enumerate(aa)] + [(n, -(mi + 1), c) for n, c in enumerate(bb)]
        res = H.expect_no_raise('q2d-raises', lambda: P.qpoly.compute_z_zprime_Q2d(cm0, ams, bms, u, t))
        if res is None:
            return
        z, dr, dt = res

        def explicit(w, tt):
            tot = 0
            for n, mm, c in terms:
                tot = tot + c * P.Q2d(n, mm, w, tt)
            return tot
        H.eq('q2d sag', z, explicit(u, t))
        H.eq('q2d d/du', dr, deriv(H, lambda w: explicit(w, t), 'u'))
        if H.mode == 'symbolic':
            ref_t = H.diff(explicit(u, t), 't')
        else:
            ref_t = ridders(lambda z_: float(explicit(u, z_)), t)
        H.eq('q2d d/dt', dt, ref_t)
    elif k == 'q2d_surface':
        S = H.mod('prysm.x.raytracing.surfaces')
        np = H.np
        x, y, c, kk, R, sh = H.param('x'), H.param('y'), H.param('c'), H.param('k'), H.param('R'), H.param('s')
        dx = sh if cfg['off'] == 'dx' else 0
        dy = sh if cfg['off'] == 'dy' else 0
        cm0 = [H.content('c0'), H.content('c1')]
        ams = [[H.content('a10'), H.content('a11')]]
        bms = [[H.content('b10')]]
        px, py = x + dx, y + dy
        if H.mode == 'symbolic':
            A = px * px + py * py
            H.assume(1 - (1 + kk) * c * c * A > 0, 'the point is on the real part of the base conic')
            H.assume(1 - kk * c * c * A > 0, 'sigma is real')

        def surf(xv, yv):
            return S.Q2d_and_der(cm0, ams, bms, H.asarray([xv]), H.asarray([yv]), R, c, kk, dx=dx, dy=dy)
        def first(v):        # 1-D coordinate vectors are expanded to a grid: results are (1, 1) arrays
            return np.asarray(v).reshape(-1)[0]
        z, zr, zt = surf(x, y)
        H.value('Q2d surface sag', first(z))
        if H.mode == 'symbolic':
            zx, zy = H.diff(first(z), 'x'), H.diff(first(z), 'y')
            r = H.sqrt(x * x + y * y)
            ref_r = (zx * x + zy * y) / r
            ref_t = x * zy - y * zx
        else:
            import math
            r0, t0 = math.hypot(x, y), math.atan2(y, x)
            ref_r = ridders(lambda rr: float(first(surf(rr * math.cos(t0), rr * math.sin(t0))[0])), r0, h=0.01)
            ref_t = ridders(lambda tt: float(first(surf(r0 * math.cos(tt), r0 * math.sin(tt))[0])), t0, h=0.01)
        H.eq('Q2d surface: radial slope is the derivative of the sag', first(zr), ref_r)
        H.eq('Q2d surface: azimuthal slope is the derivative of the sag', first(zt), ref_t)
    elif k == 'sag':
        S = H.mod('prysm.x.raytracing.surfaces')
        c, kk, rho, t = H.param('c'), H.param('k'), H.param('rho'), H.param('t')
        dx, dy = H.param('dx'), H.param('dy')
        if cfg.get('off') == 'dx':
            dy = 0
        elif cfg.get('off') == 'dy':
            dx = 0
        surf = cfg['surf']

        def pderiv(f, name):
            if H.mode == 'symbolic':
                return H.diff(f(H.param(name)), name)
            return ridders(lambda z: float(f(z)), H.param(name), h=0.01)
        if surf == 'sphere':
            H.eq('sphere_sag_der', S.sphere_sag_der(c, rho), pderiv(lambda z: S.sphere_sag(c, z * z), 'rho'))
        elif surf == 'conic':
            H.eq('conic_sag_der', S.conic_sag_der(c, kk, rho), pderiv(lambda z: S.conic_sag(c, kk, z * z), 'rho'))
        elif surf == 'off_axis_conic':
            dr, dt = S.off_axis_conic_der(c, kk, rho, t, dx, dy)
            H.eq('off_axis_conic d/dr', dr, pderiv(lambda z: S.off_axis_conic_sag(c, kk, z, t, dx, dy), 'rho'))
            H.eq('off_axis_conic d/dt', dt, pderiv(lambda z: S.off_axis_conic_sag(c, kk, rho, z, dx, dy), 't'))
        else:
            dr, dt = S.off_axis_conic_sigma_der(c, kk, rho, t, dx, dy)
            H.eq('off_axis_sigma d/dr', dr, pderiv(lambda z: S.off_axis_conic_sigma(c, kk, z, t, dx, dy), 'rho'))
            H.eq('off_axis_sigma d/dt', dt, pderiv(lambda z: S.off_axis_conic_sigma(c, kk, rho, z, dx, dy), 't'))
