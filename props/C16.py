"""C16 -- sensor model: DN stay in range; binning and mosaicking conserve signal."""

ID = 'C16'
FILES = ['prysm/detector.py', 'prysm/bayer.py']
FUNCTIONS = ['detector.Detector.expose', 'detector.bindown', 'detector.tile', 'bayer.decomposite_bayer/recomposite_bayer/composite_bayer',
             'bayer.demosaic_malvar/demosaic_deinterlace', 'bayer.wb_prescale/wb_postscale']
STUBS = ['np.random.poisson/normal -> nondeterministic stubs: any non-negative integer / any real (range obligation) or the mean / 0 (noise-free obligations)',
         'astype(uint8/16/32) -> truncate toward zero then wrap modulo 2^N (what the installed numpy does)',
         'ndimage.convolve -> definition (mode=reflect)', 'boolean-mask assignment forks one path per decided comparison']
EXPLANATION = ('expose: aerial image (2 pixels, >= 0, unbounded above), exposure time, dark current, bias, full well, gain are symbols; '
               'bit depth is concrete and ALL of 1..32 are enumerated; clipping forks paths and the unsigned cast has C semantics with '
               'floor/trunc atoms, so 0 <= DN <= 2^bits-1 is decided for every signal level including saturation. bindown/tile and the '
               'Bayer routines run on arrays with independent symbolic entries.')
BOUNDS = {'quick': 'expose: 1-pixel images for every bit depth 1..32 (exposure time/gain from an enumerated rational set), 2-pixel images for monotonicity at bits 1, 8, 13, 32, frames 1 and 2 (range obligation with arbitrary noise for bits in {1,8,12,16,32}); bindown/tile arrays up to 4x4x2; mosaics up to 4x6; integer frames (uint8, uint16): binning and tiling of 2x4 frames with the dtype model',
          'thorough': 'expose: arbitrary-noise range obligation for every bit depth; bindown/tile up to 6x6x2; mosaics up to 6x6; int16 and uint32 frames'}
OUTSIDE = 'lut mapping (np.take on integer data); statistics of the noise (only its support)'
NDERIVED = 60
MAX_PATHS = 160
CFG_TIMEOUT = {'quick': 900, 'thorough': 3600}
QTIMEOUT = {'quick': 60, 'thorough': 300}


def configs(tier):
    q = tier == 'quick'
    out = []
    # exposure time and conversion gain multiply/divide the symbolic signal; they are enumerated (exact rationals) so that the
    # obligations stay in linear integer/real arithmetic with floor atoms, which the solver decides quickly and completely
    tg = [('1', '1'), ('5/2', '7/5')] if q else [('1', '1'), ('5/2', '7/5'), ('1/3', '1/4'), ('2', '3'), ('7', '1/100'), ('1/10', '50')]
    for bits in range(1, 33):
        for i, (te, ga) in enumerate(tg):
            if q and i == 1 and bits not in (1, 8, 12, 16, 32):
                continue
            out.append({'name': 'expose-noisefree-bits%d-t%s-g%s' % (bits, te, ga), 'kind': 'expose', 'bits': bits, 'noise': 'mean',
                        'frames': 1, 'texp': te, 'gain': ga})
            if not q or bits in (1, 8, 12, 16, 32):
                out.append({'name': 'expose-range-bits%d-t%s-g%s' % (bits, te, ga), 'kind': 'expose', 'bits': bits, 'noise': 'free',
                            'frames': 1, 'texp': te, 'gain': ga})
    for bits in (1, 8, 13, 32):
        out.append({'name': 'expose-monotone-bits%d' % bits, 'kind': 'expose', 'bits': bits, 'noise': 'mean', 'frames': 1, 'texp': '3/2',
                    'gain': '2/3', 'pixels': 2})
    out.append({'name': 'expose-frames2-bits8', 'kind': 'expose_shape', 'bits': 8, 'frames': 2, 'texp': '1', 'gain': '2'})
    out.append({'name': 'expose-nonuniformity-bits10', 'kind': 'expose', 'bits': 10, 'noise': 'mean', 'frames': 1, 'nu': True,
                'texp': '2', 'gain': '3/2'})
    arrs = [((4,), (2,)), ((4, 4), (2, 2)), ((4, 6), (2, 3)), ((3, 4), (3, 2)), ((2, 4, 2), (1, 2, 2)), ((4, 4), (4, 1)), ((6,), (3,))]
    if not q:
        arrs += [((6, 6), (2, 3)), ((6, 4, 2), (3, 2, 1)), ((6, 6), (3, 3))]
    for shp, fac in arrs:
        out.append({'name': 'bin-%s-by-%s' % ('x'.join(map(str, shp)), 'x'.join(map(str, fac))), 'kind': 'bin', 'shape': list(shp),
                    'factor': list(fac)})
    out.append({'name': 'bin-scalar-factor', 'kind': 'bin', 'shape': [4, 4], 'factor': 2})
    # integer frames (what expose returns): block sums exceed the input's container
    for dt, hi in (('uint8', 255), ('uint16', 65535)) if q else (('uint8', 255), ('uint16', 65535), ('int16', 32767), ('uint32', 2 ** 32 - 1)):
        out.append({'name': 'bin-integer-frame-%s' % dt, 'kind': 'bin_int', 'shape': [2, 4], 'factor': 2, 'dtype': dt, 'hi': hi})
    for cfa in ('rggb', 'bggr'):
        for shp in ([(2, 2), (2, 4), (4, 4), (4, 6)] if q else [(2, 2), (2, 4), (4, 2), (4, 4), (4, 6), (6, 6)]):
            out.append({'name': 'bayer-%s-%dx%d' % (cfa, shp[0], shp[1]), 'kind': 'bayer', 'cfa': cfa, 'shape': list(shp)})
        out.append({'name': 'wb-%s' % cfa, 'kind': 'wb', 'cfa': cfa})
    out.append({'name': 'wb-post', 'kind': 'wb_post'})
    return out


def params(cfg):
    k = cfg['kind']
    if k in ('expose', 'expose_shape'):
        ps = [('a0', {'nonneg': True}), ('a1', {'nonneg': True}), ('dark', {'nonneg': True}), ('bias', {'nonneg': True}),
              ('fwc', {'pos': True}), ('rn', {'nonneg': True})]
        if cfg.get('noise') == 'free':
            ps += [('pois_%d' % i, {'nonneg': True, 'integer': True, 'hi': 1e12}) for i in range(2)] + [('norm_%d' % i, {}) for i in range(2)]
        if cfg.get('nu'):
            ps += [('dcnu0', {'pos': True}), ('dcnu1', {'pos': True})]
        return ps
    if k == 'bin_int':
        m, n = cfg['shape']
        return [('a_%d_%d' % (i, j), {'lo': 0, 'hi': cfg['hi']}) for i in range(m) for j in range(n)]
    if k == 'wb':
        return [('m_%d_%d' % (i, j), {'nonneg': True}) for i in range(2) for j in range(2)] + \
            [('wr', {'pos': True}), ('wg1', {'pos': True}), ('wg2', {'pos': True}), ('wb', {'pos': True}), ('sat', {'pos': True})]
    if k == 'wb_post':
        return [('p%d' % i, {'nonneg': True}) for i in range(3)] + [('wr', {'pos': True}), ('wg', {'pos': True}), ('wb', {'pos': True}), ('sat', {'pos': True})]
    return []


def run(cfg, H):
    np = H.np
    k = cfg['kind']
    if k in ('expose', 'expose_shape'):
        det = H.mod('prysm.detector')
        bits = cfg['bits']
        npx = cfg.get('pixels', 1) if k == 'expose' and not cfg.get('nu') else 2
        a = H.asarray([[H.param('a0'), H.param('a1')][:npx]])
        from fractions import Fraction as _F
        dark, bias, fwc, rn = [H.param(n) for n in ('dark', 'bias', 'fwc', 'rn')]
        te, ga = _F(cfg['texp']), _F(cfg['gain'])
        texp, gain = H.frac(te.numerator, te.denominator), H.frac(ga.numerator, ga.denominator)
        prnu = dcnu = None
        if cfg.get('nu'):
            prnu = H.asarray([H.frac(9, 10), H.frac(11, 10)])        # photo-response non-uniformity: concrete (it multiplies the signal)
            dcnu = H.asarray([[H.param('dcnu0'), H.param('dcnu1')]])
        D = det.Detector(dark, rn, bias, fwc, gain, bits, texp, prnu=prnu, dcnu=dcnu)
        if k == 'expose_shape':
            H.random_stub('mean')
            out = D.expose(a, frames=2)
            H.shape_is('shape with 2 frames', out, (2, 1, 2))
            out1 = D.expose(a, frames=1)
            H.shape_is('shape with 1 frame', out1, (1, 2))
            H.eq('frames are exposed identically without noise', out[0], out[1])
            return
        H.random_stub(cfg['noise'])
        out = D.expose(a, frames=cfg['frames'])
        cap = 2 ** bits - 1
        for j in range(npx):
            H.le('DN[%d] >= 0' % j, 0, out[0, j])
            H.le('DN[%d] <= 2^bits - 1' % j, out[0, j], cap)
        if cfg['noise'] == 'mean':
            ref = []
            for j in range(npx):
                e = a[0, j] * texp + dark * texp * (dcnu[0, j] if dcnu is not None else 1)
                if dcnu is not None and H.mode == 'symbolic':
                    pass
                if prnu is not None:
                    e = e * prnu[j]
                e = e + bias
                ref.append(_dn_model(H, e, fwc, gain, cap))
            H.eq('noise-free DN == trunc(clip(min(e, fwc)/gain, 0, 2^bits-1))', out[0], H.asarray(ref))
            if npx == 2 and not cfg.get('nu'):
                if H.mode == 'symbolic':
                    H.assume(H.param('a0') <= H.param('a1'), 'pixel 0 not brighter than pixel 1')
                    H.le('a brighter pixel never reads darker', out[0, 0], out[0, 1])
                elif H.param('a0') <= H.param('a1'):
                    H.le('a brighter pixel never reads darker', out[0, 0], out[0, 1])
    elif k == 'bin':
        det = H.mod('prysm.detector')
        shp = tuple(cfg['shape'])
        fac = cfg['factor']
        fact = tuple(fac) if isinstance(fac, list) else (fac,) * len(shp)
        facarg = tuple(fac) if isinstance(fac, list) else fac
        a = H.rarray('a', shp)
        oshp = tuple(s // f for s, f in zip(shp, fact))
        bs = det.bindown(a, facarg, mode='sum')
        ba = det.bindown(a, facarg, mode='avg')
        H.shape_is('bindown shape', bs, oshp)
        H.eq('sum-mode binning conserves the total', np.sum(bs), np.sum(a))
        nf = 1
        for f in fact:
            nf *= f
        H.eq('avg-mode binning preserves the mean', np.sum(ba) * H.frac(1, ba.size), np.sum(a) * H.frac(1, a.size))
        H.eq('avg == sum / prod(factor)', ba * nf, bs)
        # explicit block sums
        ref = H.zeros(oshp, complex_=False)
        import itertools
        for oidx in itertools.product(*[range(s) for s in oshp]):
            tot = 0
            for off in itertools.product(*[range(f) for f in fact]):
                tot = tot + a[tuple(o * f + d for o, f, d in zip(oidx, fact, off))]
            ref[oidx] = tot
        H.eq('bindown(sum) is the block sum', bs, ref)
        b = H.rarray('b', oshp)
        ts = det.tile(b, facarg, scaling='sum')
        ta = det.tile(b, facarg, scaling='avg')
        H.shape_is('tile shape', ts, shp)
        H.eq('sum-scaled tiling conserves the total', np.sum(ts), np.sum(b))
        H.eq('avg-scaled tiling repeats the level', det.bindown(ta, facarg, mode='avg'), b)
        H.eq('bindown(sum) is the adjoint of tile(avg)', np.sum(bs * b), np.sum(a * ta))
        H.eq('bindown(avg) is the adjoint of tile(sum)', np.sum(ba * b), np.sum(a * ts))
    elif k == 'bin_int':
        det = H.mod('prysm.detector')
        H.enable_dtype_model()
        shp = tuple(cfg['shape'])
        fac = cfg['factor']
        raw = H.asarray([[H.param('a_%d_%d' % (i, j)) for j in range(shp[1])] for i in range(shp[0])])
        a = np.asarray(raw).astype(getattr(np, cfg['dtype']))
        bs = det.bindown(a, fac, mode='sum')
        ba = det.bindown(a, fac, mode='avg')
        oshp = tuple(s_ // fac for s_ in shp)
        H.shape_is('bindown shape', bs, oshp)
        tot = 0
        for idx in np.ndindex(*shp):
            tot = tot + a[idx] * H.frac(1)        # leaves the integer container (numpy scalars keep it)
        stot = 0
        for idx in np.ndindex(*oshp):
            stot = stot + bs[idx] * H.frac(1)
        H.eq('sum-mode binning of an integer frame conserves the total', stot, tot)
        mtot = 0
        for idx in np.ndindex(*oshp):
            mtot = mtot + ba[idx] * H.frac(1)
        H.eq('avg-mode binning of an integer frame preserves the mean', mtot * H.frac(1, ba.size), tot * H.frac(1, a.size))
        # tiling an integer frame: the spread values are fractions of the input samples
        ts = det.tile(a, fac, scaling='sum')
        ta = det.tile(a, fac, scaling='avg')
        H.shape_is('tile shape', ts, tuple(s_ * fac for s_ in shp))
        ttot = 0
        atot = 0
        for idx in np.ndindex(*tuple(s_ * fac for s_ in shp)):
            ttot = ttot + ts[idx] * H.frac(1)
            atot = atot + ta[idx] * H.frac(1)
        H.eq('sum-scaled tiling of an integer frame conserves the total', ttot, tot)
        H.eq('avg-scaled tiling of an integer frame repeats the level', atot, tot * fac ** len(shp))
    elif k == 'bayer':
        by = H.mod('prysm.bayer')
        shp = tuple(cfg['shape'])
        cfa = cfg['cfa']
        mos = H.rarray('m', shp)
        planes = by.decomposite_bayer(mos, cfa)
        H.eq('recomposite(decomposite(m)) == m', by.recomposite_bayer(*planes, cfa=cfa), mos)
        tl, tr, bl, br = mos[0::2, 0::2], mos[0::2, 1::2], mos[1::2, 0::2], mos[1::2, 1::2]
        r, g1, g2, b = planes
        H.eq('red plane is the red sites', r, tl if cfa == 'rggb' else br)
        H.eq('blue plane is the blue sites', b, br if cfa == 'rggb' else tl)
        H.eq('green planes are the green sites', H.np.stack([H.asarray(g1), H.asarray(g2)]), H.np.stack([H.asarray(tr), H.asarray(bl)]))
        rgb = by.demosaic_malvar(mos, cfa)
        H.shape_is('malvar shape', rgb, shp + (3,))
        ri, bi = (0, 2)
        rsite = (slice(0, None, 2), slice(0, None, 2)) if cfa == 'rggb' else (slice(1, None, 2), slice(1, None, 2))
        bsite = (slice(1, None, 2), slice(1, None, 2)) if cfa == 'rggb' else (slice(0, None, 2), slice(0, None, 2))
        H.eq('malvar keeps raw red samples at red sites', rgb[..., 0][rsite], mos[rsite])
        H.eq('malvar keeps raw blue samples at blue sites', rgb[..., 2][bsite], mos[bsite])
        H.eq('malvar keeps raw green samples at green sites (row 0)', rgb[..., 1][0::2, 1::2], mos[0::2, 1::2])
        H.eq('malvar keeps raw green samples at green sites (row 1)', rgb[..., 1][1::2, 0::2], mos[1::2, 0::2])
        const = H.content('level') + 0 * mos
        H.eq('malvar of a constant mosaic is constant (kernels sum to one)', by.demosaic_malvar(const, cfa),
             H.content('level') + 0 * by.demosaic_malvar(const, cfa))
        di = by.demosaic_deinterlace(mos, cfa)
        H.eq('deinterlace red', di[..., 0], r)
        H.eq('deinterlace blue', di[..., 2], b)
        H.eq('deinterlace green is the mean of the two green planes', di[..., 1] * 2, g1 + g2)
        full = [H.rarray(n, shp) for n in ('R', 'G1', 'G2', 'B')]
        comp = by.composite_bayer(*full, cfa=cfa)
        H.eq('composite then decomposite returns each plane at its own sites',
             H.np.stack([H.asarray(p) for p in by.decomposite_bayer(comp, cfa)]),
             H.np.stack([H.asarray(p) for p in (by.decomposite_bayer(full[0], cfa)[0], by.decomposite_bayer(full[1], cfa)[1],
                                                by.decomposite_bayer(full[2], cfa)[2], by.decomposite_bayer(full[3], cfa)[3])]))
    elif k == 'wb':
        by = H.mod('prysm.bayer')
        cfa = cfg['cfa']
        mos = H.zeros((2, 2), complex_=False)
        for i in range(2):
            for j in range(2):
                mos[i, j] = H.param('m_%d_%d' % (i, j))
        orig = mos.copy()
        wr, wg1, wg2, wb, sat = [H.param(n) for n in ('wr', 'wg1', 'wg2', 'wb', 'sat')]
        m1 = orig.copy()
        by.wb_prescale(m1, wr, wg1, wg2, wb, cfa=cfa)
        gains = [[wr, wg1], [wg2, wb]] if cfa == 'rggb' else [[wb, wg1], [wg2, wr]]
        H.eq('wb_prescale multiplies each site by its gain', m1, orig * H.asarray(gains))
        # safe mode: gains are only ever reduced, all by the same ratio, and only if some plane exceeds its saturation
        m2 = orig.copy()
        by.wb_prescale(m2, wr, wg1, wg2, wb, cfa=cfa, safe=True, saturation=sat)
        H.eq('safe prescale keeps the ratio between planes', m2[0, 0] * m1[1, 1], m1[0, 0] * m2[1, 1])
        for i in range(2):
            for j in range(2):
                H.le('safe prescale never raises a gain [%d,%d]' % (i, j), m2[i, j], m1[i, j])
    elif k == 'wb_post':
        by = H.mod('prysm.bayer')
        rgb = H.zeros((1, 1, 3), complex_=False)
        for i in range(3):
            rgb[0, 0, i] = H.param('p%d' % i)
        orig = rgb.copy()
        wr, wg, wb, sat = [H.param(n) for n in ('wr', 'wg', 'wb', 'sat')]
        r1 = orig.copy()
        by.wb_postscale(r1, wr, wg, wb)
        H.eq('wb_postscale multiplies each plane by its gain', r1[0, 0], orig[0, 0] * H.asarray([wr, wg, wb]))
        r2 = orig.copy()
        by.wb_postscale(r2, wr, wg, wb, safe=True, saturation=sat)
        for i in range(3):
            H.le('safe postscale never raises a gain [%d]' % i, r2[0, 0, i], r1[0, 0, i])
        # with unit requested gains, a plane that is within saturation must stay within saturation
        r3 = orig.copy()
        by.wb_postscale(r3, 1, 1, 1, safe=True, saturation=sat)
        H.le('safe postscale (unit gains) never raises red', r3[0, 0, 0], orig[0, 0, 0])


def _dn_model(H, e, fwc, gain, cap):
    """trunc(clip(min(e, fwc)/gain, 0, cap)) -- values are non-negative here, so trunc == floor"""
    if H.mode == 'symbolic':
        v = e if bool(e <= fwc) else fwc
        v = v / gain
        if bool(v > cap):
            return cap
        return H.floor(v)
    v = min(e, fwc) / gain
    v = min(max(v, 0), cap)
    return float(int(v))
