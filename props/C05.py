"""C05 -- fixed-sampling results depend on the physical field, not its array embedding."""

ID = 'C05'
FILES = ['prysm/propagation.py', 'prysm/fttools.py']
FUNCTIONS = ['propagation.focus_fixed_sampling/unfocus_fixed_sampling/to_fpm_and_back/Q_for_sampling', 'Wavefront.to_fpm_and_back/babinet',
             'fttools.mdft/czt executors', 'fttools.pad2d']
STUBS = ['fft.* -> DFT by definition', 'np.exp(i x) -> phasor', 'np.sqrt exact']
EXPLANATION = ('Kernels of the fixed-sampling routines are read off symbolic runs (field, masks, dx, lambda, efl, output spacing and '
               'shift are symbols). Metamorphic obligations on the kernels: embedding in a larger zero-padded array leaves the output '
               'unchanged; transposing the input and the per-axis arguments transposes the output; an all-pass mask over the complete '
               'band returns the field; masks combine additively and Babinet holds.')
BOUNDS = {'quick': 'shapes (m,n) in {1..3}^2, embeddings up to +2 samples per axis, outputs (M,N) in {2,3}^2; masks up to 3x3; both methods (czt on a subset); storage type (real vs complex input) on 2x3 for both engines and directions',
          'thorough': 'shapes up to 4x4, embeddings up to +3, outputs up to 4x4; masks up to 4x4; storage type on 3 shapes'}
OUTSIDE = 'shapes beyond the bound; float rounding'
NDERIVED = 16
MAX_PATHS = 16
CFG_TIMEOUT = {'quick': 900, 'thorough': 3600}


def configs(tier):
    q = tier == 'quick'
    out = []
    shapes = [(1, 2), (2, 2), (2, 3), (3, 2), (3, 3)] + ([] if q else [(4, 3), (3, 4)])      # sized for about half an hour on 16 cores
    for meth in ('mdft', 'czt'):
        for (m, n) in shapes:
            for d in ('fwd', 'inv'):
                if q and meth == 'czt' and (m, n) not in ((2, 2), (2, 3)):
                    continue
                for (em, en) in ((m + 1, n), (m, n + 2), (m + 2, n + 1)):
                    sh = 'zero' if (meth == 'czt' and (q or em * en > 6)) else 'sym'   # symbolic shift through chirp-Z is the costly case
                    out.append({'name': 'embed-%s-%s-%dx%d-in-%dx%d-%s' % (meth, d, m, n, em, en, sh), 'kind': 'embed', 'method': meth,
                                'dir': d, 'in': [m, n], 'emb': [em, en], 'out': [3, 2], 'shift': sh})
                sh = 'zero' if (meth == 'czt' and (q or m * n > 6)) else 'sym'
                out.append({'name': 'transpose-%s-%s-%dx%d-%s' % (meth, d, m, n, sh), 'kind': 'transpose', 'method': meth, 'dir': d,
                            'in': [m, n], 'out': [2, 3], 'shift': sh})
    # the same field stored as a real or as a complex array (linearity over the complex numbers: T(a + i 0) == T(a))
    for meth in ('mdft', 'czt'):
        for d in ('fwd', 'inv'):
            for (m, n) in [(2, 3)] if q else [(2, 3), (3, 2), (3, 3)]:
                out.append({'name': 'storage-%s-%s-%dx%d' % (meth, d, m, n), 'kind': 'storage', 'method': meth, 'dir': d, 'in': [m, n],
                            'out': [3, 2], 'shift': 'zero'})
    for meth in ('mdft', 'czt'):
        for (m, n, M) in [(2, 2, 2), (2, 2, 3), (2, 3, 3), (3, 2, 3), (1, 2, 2)] + ([] if q else [(3, 3, 4), (2, 4, 4), (3, 3, 3)]):
            if q and meth == 'czt' and (m, n, M) not in ((2, 2, 2), (2, 3, 3)):
                continue
            for sh in ('zero', 'sym'):
                if meth == 'czt' and sh == 'sym' and (q or m * n * M > 8):
                    continue
                out.append({'name': 'allpass-%s-%dx%d-M%d-%s' % (meth, m, n, M, sh), 'kind': 'allpass', 'method': meth,
                            'in': [m, n], 'M': M, 'shift': sh})
        for (m, n, Mm, Nm) in [(2, 2, 2, 2), (2, 3, 3, 2), (3, 2, 2, 3)]:
            if meth == 'czt' and (q or (m, n) != (2, 2)):
                continue     # mask algebra does not depend on the method; chirp-Z with symbolic masks is expensive
            out.append({'name': 'masks-%s-%dx%d-%dx%d' % (meth, m, n, Mm, Nm), 'kind': 'masks', 'method': meth, 'in': [m, n],
                        'mask': [Mm, Nm]})
    return out


def params(cfg):
    ps = [('dx', {'pos': True}), ('wvl', {'pos': True}), ('efl', {'pos': True}), ('odx', {'pos': True})]
    if cfg.get('shift') == 'sym':
        ps += [('sx', {}), ('sy', {})]
    return ps


def run(cfg, H):
    prop = H.mod('prysm.propagation')
    ft = H.mod('prysm.fttools')
    np = H.np
    dx, wvl, efl, odx = H.param('dx'), H.param('wvl'), H.param('efl'), H.param('odx')
    kind = cfg['kind']
    meth = cfg['method']
    m, n = cfg['in']
    if kind in ('embed', 'transpose'):
        sx, sy = (H.param('sx'), H.param('sy')) if cfg['shift'] == 'sym' else (0, 0)
        M, N = cfg['out']
        route = prop.focus_fixed_sampling if cfg['dir'] == 'fwd' else prop.unfocus_fixed_sampling
        K = H.linear_map(lambda f: route(f, dx, efl, wvl, odx, (M, N), shift=(sx, sy), method=meth), (m, n))
        if kind == 'embed':
            em, en = cfg['emb']
            Kbig = H.linear_map(lambda f: route(f, dx, efl, wvl, odx, (M, N), shift=(sx, sy), method=meth), (em, en), name='g')
            # samples of the small array sit at offset (em//2 - m//2, en//2 - n//2) in the big one
            oy, ox = em // 2 - m // 2, en // 2 - n // 2
            sub = H.zeros((m, n, M, N))
            for i in range(m):
                for j in range(n):
                    sub[i, j] = Kbig[i + oy, j + ox]
            H.eq('output unchanged by zero-padded embedding', K, sub)
            P = H.linear_map(lambda f: ft.pad2d(f, out_shape=(em, en)), (m, n), name='p')
            want = H.zeros((m, n, em, en))
            for i in range(m):
                for j in range(n):
                    want[i, j, i + oy, j + ox] = 1
            H.eq('pad2d embeds at the origin-preserving offset', P, want)
        else:
            Kt = H.linear_map(lambda f: route(f, dx, efl, wvl, odx, (N, M), shift=(sy, sx), method=meth), (n, m), name='g')
            ref = H.zeros((m, n, M, N))
            for i in range(m):
                for j in range(n):
                    for k in range(M):
                        for ll in range(N):
                            ref[i, j, k, ll] = Kt[j, i, ll, k]
            H.eq('transposed input and per-axis arguments give the transposed output', K, ref)
    elif kind == 'storage':
        M, N = cfg['out']
        route = prop.focus_fixed_sampling if cfg['dir'] == 'fwd' else prop.unfocus_fixed_sampling
        Kc = H.linear_map(lambda f: route(f, dx, efl, wvl, odx, (M, N), shift=(0, 0), method=meth), (m, n), complex_=True)
        Kr = H.linear_map(lambda f: route(f, dx, efl, wvl, odx, (M, N), shift=(0, 0), method=meth), (m, n), complex_=False, name='g')
        H.eq('a real-typed input is transformed like the same field stored as complex', Kr, Kc)
    elif kind == 'allpass':
        M = cfg['M']
        fpm_dx = wvl * efl / (dx * M)
        if cfg['shift'] == 'sym':
            shift = (H.param('sx'), H.param('sy'))
        else:
            shift = (0, 0)
        ones = H.zeros((M, M), complex_=False) + 1
        K = H.linear_map(lambda f: prop.to_fpm_and_back(f, dx, efl, wvl, ones, fpm_dx, shift=shift, method=meth), (m, n))
        want = H.zeros((m, n, m, n))
        for i in range(m):
            for j in range(n):
                want[i, j, i, j] = 1
        H.eq('all-pass mask over the complete band returns the field', K, want)
        wf = prop.Wavefront(H.carray('w', (m, n)), wvl, dx)
        H.eq('Wavefront.to_fpm_and_back == propagation.to_fpm_and_back',
             wf.to_fpm_and_back(efl, ones, fpm_dx, method=meth, shift=shift).data,
             prop.to_fpm_and_back(wf.data, dx, efl, wvl, ones, fpm_dx, shift=shift, method=meth))
    elif kind == 'masks':
        Mm, Nm = cfg['mask']
        m1 = H.carray('ma', (Mm, Nm))
        m2 = H.carray('mb', (Mm, Nm))
        lyot = H.carray('ly', (m, n))
        f = H.carray('f', (m, n))
        t1 = prop.to_fpm_and_back(f, dx, efl, wvl, m1, odx, method=meth)
        t2 = prop.to_fpm_and_back(f, dx, efl, wvl, m2, odx, method=meth)
        t12 = prop.to_fpm_and_back(f, dx, efl, wvl, m1 + m2, odx, method=meth)
        H.eq('masks combine additively', t1 + t2, t12)
        wf = prop.Wavefront(f, wvl, dx)
        bab = wf.babinet(efl, lyot, m1, fpm_dx=odx, method=meth)
        comp = prop.to_fpm_and_back(f, dx, efl, wvl, 1 - m1, odx, method=meth)
        H.eq('babinet == lyot * (field - through-the-complement)', bab.data, lyot * (f - comp))
        bab0 = wf.babinet(efl, None, m1, fpm_dx=odx, method=meth)
        H.eq('babinet without Lyot stop', bab0.data, f - comp)
        H.eq('mask + complement == unmasked (Babinet)', t1 + comp, prop.to_fpm_and_back(f, dx, efl, wvl, 1 + 0 * m1, odx, method=meth))
