"""C06 -- every backprop routine returns the true gradient of its forward routine."""

ID = 'C06'
FILES = ['prysm/fttools.py', 'prysm/propagation.py', 'prysm/polynomials/__init__.py', 'prysm/x/optym/activation.py',
         'prysm/x/optym/cost.py', 'prysm/x/optym/operators.py', 'prysm/x/dm.py', 'prysm/convolution.py']
FUNCTIONS = ['fttools.mdft.dft2/dft2_backprop/idft2/idft2_backprop', 'propagation.focus_fixed_sampling(_backprop)/unfocus_fixed_sampling(_backprop)',
             'propagation.to_fpm_and_back(_backprop)', 'Wavefront.babinet(_backprop)/intensity(_backprop)/from_amp_and_phase(_backprop_phase)',
             'polynomials.sum_of_2d_modes(_backprop)', 'x.optym.activation.Softmax/GumbelSoftmax/DiscreteEncoder/Tanh/Arctan/Softplus/Sigmoid',
             'x.optym.cost.mean_square_error/bias_and_gain_invariant_error/negative_loglikelihood', 'x.optym.operators.SpatialGradient2D',
             'x.dm.DM.render/render_backprop (no rotation)']
STUBS = ['fft.* -> DFT by definition', 'np.exp/np.log/np.arctan of real symbols -> opaque atoms with their derivative rules and exp(a)exp(b)=exp(a+b)',
         'rng.uniform -> arbitrary value in (0,1)', 'np.sqrt exact', 'ndimage.map_coordinates NOT modelled (DM with rotation outside)']
EXPLANATION = ('Linear complex maps: the kernel A[in->out] of the forward routine and the kernel B[out->in] of its backprop companion are read '
               'off symbolic runs and B must equal the conjugate transpose of A (<y, A x> = <A^H y, x> for all x, y). Non-linear maps: the engine '
               'differentiates the forward routine\'s symbolic output with respect to every input symbol (polynomial derivative, chain rule '
               'through phasors and exp/log/atan/sqrt atoms) and the backprop result must equal J^T ybar in the library\'s convention '
               '(d/dRe + i d/dIm for complex inputs).')
BOUNDS = {'quick': 'shapes in {2,3}^2 (input/output/mask sizes unequal and non-square included); softmax with 2 and 3 classes; cost functions on 3-4 samples; DM 4x4 grids, 2x2 actuators; focal-plane-mask round trip with a symbolic (sx, sy) window shift on 2 shapes',
          'thorough': 'shapes up to 4x4; softmax with 2 and 3 classes; DM up to 6x6 with shifts, pad and crop'}
OUTSIDE = 'DM with rotation (spline warp) or upsample != 1; optimizers.py; czt backprop (raises by design)'
NDERIVED = 60
MAX_PATHS = 48
CFG_TIMEOUT = {'quick': 900, 'thorough': 3600}


def configs(tier):
    q = tier == 'quick'
    out = []
    shapes = [(2, 2, 2, 2), (2, 3, 3, 2), (3, 2, 2, 3), (2, 2, 3, 3), (3, 3, 2, 2)] + ([] if q else [(3, 4, 4, 3), (4, 4, 3, 3), (1, 3, 3, 1)])
    for (m, n, M, N) in shapes:
        for d in ('fwd', 'inv'):
            out.append({'name': 'mdft-%s-%dx%d-%dx%d' % (d, m, n, M, N), 'kind': 'mdft', 'dir': d, 'in': [m, n], 'out': [M, N]})
            out.append({'name': 'fixed-%s-%dx%d-%dx%d' % (d, m, n, M, N), 'kind': 'fixed', 'dir': d, 'in': [m, n], 'out': [M, N]})
    for (m, n, Mm, Nm) in [(2, 2, 2, 2), (2, 2, 3, 3), (2, 3, 3, 2), (3, 2, 2, 2)] + ([] if q else [(3, 3, 4, 4), (3, 3, 2, 3)]):
        for mask in ('real', 'complex'):
            out.append({'name': 'fpm-%s-%dx%d-mask%dx%d' % (mask, m, n, Mm, Nm), 'kind': 'fpm', 'in': [m, n], 'mask': [Mm, Nm], 'mtype': mask})
            out.append({'name': 'babinet-%s-%dx%d-mask%dx%d' % (mask, m, n, Mm, Nm), 'kind': 'babinet', 'in': [m, n], 'mask': [Mm, Nm], 'mtype': mask})
    # the rarely used shift of the focal-plane window, with different x and y components
    for (m, n, Mm, Nm) in [(2, 2, 2, 2), (2, 3, 3, 2)]:
        out.append({'name': 'fpm-real-%dx%d-mask%dx%d-shifted' % (m, n, Mm, Nm), 'kind': 'fpm', 'in': [m, n], 'mask': [Mm, Nm], 'mtype': 'real',
                    'shift': 'sym'})
    out.append({'name': 'intensity', 'kind': 'intensity'})
    out.append({'name': 'amp-and-phase', 'kind': 'ampphase'})
    out.append({'name': 'sum-of-2d-modes', 'kind': 'modes'})
    for shp in [(3, 3), (3, 4), (4, 3), (4, 4), (2, 5)]:
        out.append({'name': 'spatial-gradient-%dx%d' % shp, 'kind': 'sgrad', 'shape': list(shp)})
    for act in ('Tanh', 'Arctan', 'Softplus', 'Sigmoid'):
        out.append({'name': 'activation-%s' % act, 'kind': 'act', 'act': act})
    for k in (2, 3):        # 4 classes: one path per ordering of 2 rows of scores exceeds any reasonable path budget
        mp = {}
        out.append(dict({'name': 'softmax-%dclasses' % k, 'kind': 'softmax', 'classes': k, 'rows': 2}, **mp))
        out.append({'name': 'gumbel-%dclasses' % k, 'kind': 'gumbel', 'classes': k, 'rows': 1})
        out.append(dict({'name': 'encoder-%dlevels' % k, 'kind': 'encoder', 'classes': k, 'rows': 2}, **mp))
    for c in ('mse', 'mse-masked', 'bgie', 'bgie-masked', 'nll', 'nll-masked'):
        out.append({'name': 'cost-%s' % c, 'kind': 'cost', 'cost': c})
    dms = [{'N': 4, 'Nact': 2, 'sep': 1, 'Nout': 4, 'shift': 'zero'}, {'N': 4, 'Nact': 2, 'sep': 2, 'Nout': 6, 'shift': 'zero'},
           {'N': 4, 'Nact': 2, 'sep': 1, 'Nout': 2, 'shift': 'zero'}, {'N': 4, 'Nact': 2, 'sep': 1, 'Nout': 4, 'shift': 'sym'},
           {'N': 5, 'Nact': 3, 'sep': 1, 'Nout': 5, 'shift': 'zero'}]
    if not q:
        dms += [{'N': 6, 'Nact': 3, 'sep': 1, 'Nout': 8, 'shift': 'zero'}, {'N': 6, 'Nact': 2, 'sep': 2, 'Nout': 4, 'shift': 'zero'}]     # the lattice must fit in the influence-function array
    for i, d in enumerate(dms):
        out.append(dict(d, name='dm-%d-N%d-act%d-sep%d-out%d-%s' % (i, d['N'], d['Nact'], d['sep'], d['Nout'], d['shift']), kind='dm'))
    return out


def params(cfg):
    k = cfg['kind']
    if k == 'mdft':
        return [('Qy', {'pos': True}), ('Qx', {'pos': True}), ('sx', {}), ('sy', {})]
    if k in ('fixed',):
        return [('dx', {'pos': True}), ('wvl', {'pos': True}), ('efl', {'pos': True}), ('odx', {'pos': True}), ('sx', {}), ('sy', {})]
    if k in ('fpm', 'babinet'):
        return [('dx', {'pos': True}), ('wvl', {'pos': True}), ('efl', {'pos': True}), ('odx', {'pos': True})] + \
            ([('sx', {}), ('sy', {})] if cfg.get('shift') == 'sym' else [])
    if k == 'ampphase':
        return [('wvl', {'pos': True}), ('a0', {}), ('a1', {}), ('p0', {}), ('p1', {})]
    if k == 'act':
        return [('x', {}), ('a', {'pos': True}), ('x0', {}), ('y0', {})]
    if k in ('softmax', 'gumbel', 'encoder'):
        n = cfg['classes'] * cfg['rows']
        ps = [('x%d' % i, {'lo': -2, 'hi': 2}) for i in range(n)]
        if k == 'gumbel':
            ps += [('uni_%d' % i, {'gt': 0.05, 'lt': 0.95}) for i in range(n)] + [('tau', {'pos': True})]
        return ps
    if k == 'cost':
        return [('I%d' % i, {'gt': 0.1, 'lt': 0.9}) for i in range(4)]
    if k == 'dm':
        return [('sx', {}), ('sy', {})] if cfg['shift'] == 'sym' else []
    return []


def adjoint_kernels(H, label, KA, KB, n_in_dims):
    """KB[out..., in...] == conj(KA[in..., out...])"""
    np = H.np
    nd = len(np.shape(KA))
    perm = tuple(range(n_in_dims, nd)) + tuple(range(n_in_dims))
    H.eq(label, KB, H.conj(np.transpose(KA, perm)) if H.mode == 'concrete' else H.conj(H.asarray(np.transpose(np.asarray(KA, dtype=object), perm))))


def jt_vec(H, outs, names, ybar, complex_inputs=False):
    """J^T ybar for outputs `outs` (flat list) w.r.t. the symbols `names` (symbolic mode only)."""
    res = []
    for nm in names:
        tot = 0
        for o, yb in zip(outs, ybar):
            tot = tot + H.diff(o, nm) * yb
        res.append(tot)
    return res


def run(cfg, H):
    np = H.np
    k = cfg['kind']
    if k == 'mdft':
        ft = H.mod('prysm.fttools')
        m, n = cfg['in']
        M, N = cfg['out']
        Q = (H.param('Qy'), H.param('Qx'))
        shift = (H.param('sx'), H.param('sy'))
        if cfg['dir'] == 'fwd':
            KA = H.linear_map(lambda f: ft.mdft.dft2(f, Q, (M, N), shift), (m, n))
            KB = H.linear_map(lambda g: ft.mdft.dft2_backprop(g, Q, (m, n), shift), (M, N), name='g')
        else:
            KA = H.linear_map(lambda f: ft.mdft.idft2(f, Q, (M, N), shift), (m, n))
            KB = H.linear_map(lambda g: ft.mdft.idft2_backprop(g, Q, (m, n), shift), (M, N), name='g')
        H.shape_is('backprop output shape', KB, (M, N, m, n))
        adjoint_kernels(H, 'backprop kernel == conjugate transpose of the forward kernel', KA, KB, 2)
    elif k == 'fixed':
        prop = H.mod('prysm.propagation')
        m, n = cfg['in']
        M, N = cfg['out']
        dx, wvl, efl, odx = [H.param(x) for x in ('dx', 'wvl', 'efl', 'odx')]
        shift = (H.param('sx'), H.param('sy'))
        if cfg['dir'] == 'fwd':
            KA = H.linear_map(lambda f: prop.Wavefront(f, wvl, dx, 'pupil').focus_fixed_sampling(efl, odx, (M, N), shift=shift).data, (m, n))
            KB = H.linear_map(lambda g: prop.Wavefront(g, wvl, odx, 'psf').focus_fixed_sampling_backprop(efl, dx, (m, n), shift=shift).data,
                              (M, N), name='g')
        else:
            KA = H.linear_map(lambda f: prop.unfocus_fixed_sampling(f, dx, efl, wvl, odx, (M, N), shift=shift), (m, n))
            KB = H.linear_map(lambda g: prop.unfocus_fixed_sampling_backprop(g, dx, efl, wvl, odx, (m, n), shift=shift), (M, N), name='g')
        H.shape_is('backprop output shape', KB, (M, N, m, n))
        adjoint_kernels(H, 'backprop kernel == conjugate transpose of the forward kernel', KA, KB, 2)
    elif k in ('fpm', 'babinet'):
        prop = H.mod('prysm.propagation')
        m, n = cfg['in']
        Mm, Nm = cfg['mask']
        dx, wvl, efl, odx = [H.param(x) for x in ('dx', 'wvl', 'efl', 'odx')]
        mask = H.carray('mk', (Mm, Nm)) if cfg['mtype'] == 'complex' else H.rarray('mk', (Mm, Nm))
        if k == 'fpm':
            shift = (H.param('sx'), H.param('sy')) if cfg.get('shift') == 'sym' else (0, 0)
            KA = H.linear_map(lambda f: prop.Wavefront(f, wvl, dx).to_fpm_and_back(efl, mask, odx, shift=shift).data, (m, n))
            KB = H.linear_map(lambda g: prop.Wavefront(g, wvl, dx).to_fpm_and_back_backprop(efl, mask, odx, shift=shift).data, (m, n), name='g')
        else:
            lyot = H.carray('ly', (m, n)) if cfg['mtype'] == 'complex' else H.rarray('ly', (m, n))
            KA = H.linear_map(lambda f: prop.Wavefront(f, wvl, dx).babinet(efl, lyot, mask, fpm_dx=odx).data, (m, n))
            KB = H.linear_map(lambda g: prop.Wavefront(g, wvl, dx).babinet_backprop(efl, lyot, mask, fpm_dx=odx).data, (m, n), name='g')
        adjoint_kernels(H, 'backprop kernel == conjugate transpose of the forward kernel', KA, KB, 2)
    elif k == 'intensity':
        prop = H.mod('prysm.propagation')
        E = H.carray('E', (2, 2))
        Ibar = H.rarray('Ib', (2, 2))
        wf = prop.Wavefront(E, 1, 1)
        got = wf.intensity_backprop(Ibar).data
        if H.mode == 'symbolic':
            I = wf.intensity.data
            ref = H.zeros((2, 2))
            for idx in [(0, 0), (0, 1), (1, 0), (1, 1)]:
                tag = '_'.join(map(str, idx))
                tot = 0
                for jdx in [(0, 0), (0, 1), (1, 0), (1, 1)]:
                    tot = tot + Ibar[jdx] * (H.diff(I[jdx], 'Er_' + tag) + H.j * H.diff(I[jdx], 'Ei_' + tag))
                ref[idx] = tot
        else:
            ref = 2 * Ibar * E
        H.eq('intensity_backprop == (d/dRe + i d/dIm) of sum(Ibar * |E|^2)', got, ref)
    elif k == 'ampphase':
        prop = H.mod('prysm.propagation')
        wvl = H.param('wvl')
        amp = H.asarray([[H.param('a0'), H.param('a1')]])
        ph = H.asarray([[H.param('p0'), H.param('p1')]])
        wf = prop.Wavefront.from_amp_and_phase(amp, ph, wvl, 1)
        Pbar = H.carray('Pb', (1, 2))
        got = wf.from_amp_and_phase_backprop_phase(prop.Wavefront(Pbar, wvl, 1))
        if H.mode == 'symbolic':
            ref = H.zeros((1, 2), complex_=False)
            for j, nm in enumerate(('p0', 'p1')):
                # real cost gradient: Re(conj(Pbar) dP/dphi)
                d = H.diff(wf.data[0, j], nm)
                ref[0, j] = H.real(H.conj(Pbar[0, j]) * d)
        else:
            kk = 2 * H.pi / wvl / 1000
            ref = np.real(np.conj(Pbar) * (1j * kk * wf.data))
        H.eq('from_amp_and_phase_backprop_phase == Re(conj(Pbar) dP/dphase)', got, ref)
    elif k == 'modes':
        P = H.mod('prysm.polynomials')
        modes = [H.rarray('m%d' % i, (2, 3)) for i in range(3)]
        KA = H.linear_map(lambda w: P.sum_of_2d_modes(modes, w), (3,), complex_=False, name='w')
        KB = H.linear_map(lambda d: P.sum_of_2d_modes_backprop(H.np.stack(modes) if H.mode == 'concrete' else H.np.stack([H.asarray(x) for x in modes]), d),
                          (2, 3), complex_=False, name='d')
        adjoint_kernels(H, 'sum_of_2d_modes_backprop is the transpose', KA, KB, 1)
        # the upstream gradient in column-major memory (a transposed frame): the result may not depend on the layout
        stk = H.np.stack(modes) if H.mode == 'concrete' else H.np.stack([H.asarray(x) for x in modes])
        d = H.rarray('dF', (2, 3))
        dF = H.asarray(H.np.asfortranarray(H.np.asarray(d)))
        H.eq('sum_of_2d_modes_backprop does not depend on the memory layout of the gradient', P.sum_of_2d_modes_backprop(stk, dF),
             P.sum_of_2d_modes_backprop(stk, d))
    elif k == 'sgrad':
        ops = H.mod('prysm.x.optym.operators').SpatialGradient2D()
        shp = tuple(cfg['shape'])
        for ax in ('x', 'y'):
            fwd, bwd = getattr(ops, 'forward_' + ax), getattr(ops, 'backprop_' + ax)
            KA = H.expect_no_raise('forward_%s raises' % ax, lambda: H.linear_map(fwd, shp, complex_=False, name='u' + ax))
            KB = H.expect_no_raise('backprop_%s raises' % ax, lambda: H.linear_map(bwd, shp, complex_=False, name='v' + ax))
            if KA is None or KB is None:
                continue
            adjoint_kernels(H, 'backprop_%s is the transpose of forward_%s' % (ax, ax), KA, KB, 2)
            # forward_<ax> is a forward difference along that axis on the interior samples
            x = H.rarray('z' + ax, shp)
            out = fwd(x)
            ref = H.zeros(shp, complex_=False)
            if ax == 'x':
                for i in range(shp[0]):
                    for j in range(1, shp[1] - 1):
                        ref[i, j] = x[i, j + 1] - x[i, j]
            else:
                for i in range(1, shp[0] - 1):
                    for j in range(shp[1]):
                        ref[i, j] = x[i + 1, j] - x[i, j]
            H.eq('forward_%s is the forward difference along its axis' % ax, out, ref)
    elif k == 'act':
        A = H.mod('prysm.x.optym.activation')
        x, a, x0, y0 = [H.param(n) for n in ('x', 'a', 'x0', 'y0')]
        node = getattr(A, cfg['act'])(a, x0, y0)
        xa = H.asarray([x])
        got = node.backprop(xa.copy())
        if H.mode == 'symbolic':
            ref = H.asarray([H.diff(node.forward(xa)[0], 'x')])
        else:
            from props.C09 import ridders
            ref = np.asarray([ridders(lambda z: float(node.forward(np.asarray([z]))[0]), x, h=0.01)])
        H.eq('%s.backprop(x) == d forward / dx' % cfg['act'], got, ref)
    elif k in ('softmax', 'gumbel', 'encoder'):
        A = H.mod('prysm.x.optym.activation')
        K, R = cfg['classes'], cfg['rows']
        names = ['x%d' % i for i in range(K * R)]
        x = H.asarray([H.param(nm) for nm in names]).reshape((R, K))
        if k == 'softmax':
            node = A.Softmax()
            ybar = H.rarray('yb', (R, K))
            out = node.forward(x)
            got = node.backprop(ybar)
            outs, yb = list(H.asarray(out).reshape(-1)), list(H.asarray(ybar).reshape(-1))
            H.eq('softmax rows sum to one', np.sum(out, axis=1), 1 + 0 * np.sum(out, axis=1))
        elif k == 'gumbel':
            H.random_stub('free')
            node = A.GumbelSoftmax(tau=H.param('tau'), eps=H.frac(1, 10 ** 6))
            ybar = H.rarray('yb', (R, K))
            out = node.forward(x)
            got = node.backprop(ybar)
            outs, yb = list(H.asarray(out).reshape(-1)), list(H.asarray(ybar).reshape(-1))
        else:
            levels = H.asarray([H.frac(3 * i * i + 1, 2) for i in range(K)])
            node = A.DiscreteEncoder(A.Softmax(), levels)
            ybar = H.rarray('yb', (R,))
            out = node.forward(x)
            got = node.backprop(ybar)
            outs, yb = list(H.asarray(out).reshape(-1)), list(H.asarray(ybar).reshape(-1))
        if H.mode == 'symbolic':
            ref = H.asarray(jt_vec(H, outs, names, yb)).reshape((R, K))
        else:
            ref = _numeric_jt(H, lambda xv: _forward_again(H, A, cfg, xv), np.asarray([H.param(nm) for nm in names]), np.asarray(yb, dtype=float)).reshape((R, K))
        H.eq('%s.backprop(ybar) == J^T ybar' % k, got, ref)
    elif k == 'cost':
        C = H.mod('prysm.x.optym.cost')
        names = ['I%d' % i for i in range(4)]
        I = H.asarray([H.param(nm) for nm in names]).reshape((2, 2))
        # the data D are concrete rationals (the gradient is taken with respect to the model I only)
        D = H.asarray([H.frac(1, 3), H.frac(1, 2), H.frac(4, 5), H.frac(2, 7)]).reshape((2, 2))
        masked = cfg['cost'].endswith('masked')
        mask = None
        if masked:
            import numpy as _np
            mask = _np.array([[True, False], [True, True]])
        fn = {'mse': lambda i: C.mean_square_error(i, D, mask), 'bgie': lambda i: C.bias_and_gain_invariant_error(i, D, mask),
              'nll': lambda i: C.negative_loglikelihood(i, D, mask)}[cfg['cost'].split('-')[0]]
        cost, grad = fn(I)
        if H.mode == 'symbolic':
            ref = H.asarray([H.diff(cost, nm) for nm in names]).reshape((2, 2))
        else:
            from props.C09 import ridders
            ref = np.zeros((2, 2))
            base = np.asarray(I, dtype=float)
            for i in range(4):
                def f(z, i=i):
                    a = base.copy().reshape(-1)
                    a[i] = z
                    return float(fn(a.reshape((2, 2)))[0])
                ref.reshape(-1)[i] = ridders(f, base.reshape(-1)[i], h=0.01)
        H.eq('%s: returned gradient == d cost / d model' % cfg['cost'], grad, ref)
    elif k == 'dm':
        dmm = H.mod('prysm.x.dm')
        N, Nact, sep, Nout = cfg['N'], cfg['Nact'], cfg['sep'], cfg['Nout']
        ifn = H.rarray('ifn', (N, N))
        shift = (H.param('sx'), H.param('sy')) if cfg['shift'] == 'sym' else (0, 0)
        dm = dmm.DM(ifn, Nout, Nact=Nact, sep=sep, shift=shift)

        def fwd(a):
            dm.update(a)
            return dm.render(wfe=True)
        KA = H.linear_map(fwd, (Nact, Nact), complex_=False, name='act')
        KB = H.linear_map(lambda g: dm.render_backprop(g, wfe=True), (Nout, Nout), complex_=False, name='g')
        H.shape_is('render_backprop shape', KB, (Nout, Nout, Nact, Nact))
        adjoint_kernels(H, 'render_backprop is the transpose of render', KA, KB, 2)


def _forward_again(H, A, cfg, xv):
    K, R = cfg['classes'], cfg['rows']
    x = H.np.asarray(xv, dtype=float).reshape((R, K))
    if cfg['kind'] == 'softmax':
        return A.Softmax().forward(x).reshape(-1)
    if cfg['kind'] == 'gumbel':
        H.random_stub('free')
        return A.GumbelSoftmax(tau=H.param('tau'), eps=1e-6).forward(x).reshape(-1)
    levels = H.np.asarray([(3 * i * i + 1) / 2 for i in range(K)])
    return A.DiscreteEncoder(A.Softmax(), levels).forward(x).reshape(-1)


def _numeric_jt(H, f, x0, ybar):
    from props.C09 import ridders
    np = H.np
    out = np.zeros(len(x0))
    for i in range(len(x0)):
        def g(z, i=i):
            a = np.array(x0, dtype=float)
            a[i] = z
            return float(np.dot(f(a), ybar))
        out[i] = ridders(g, x0[i], h=0.01)
    return out
