#!/bin/bash
# translator validation 1: the repository test-suite on the lifted package (identity helpers) must give the baseline result
cd /repo && PYTHONPATH=/verif /venv/bin/python -m pytest -q -p no:cacheprovider -p symx.tv1plugin --timeout=900 --continue-on-collection-errors -x -q "$@" 2>&1 | tail -5
